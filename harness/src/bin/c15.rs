//! C15 — SOCKS5 upstream dialogue: replay of the TLC behaviours of Socks5.tla into the real
//! `socks5_client::connect` (credentials converted by the real `make_auth` /
//! `make_extended_auth`) over a scripted in-memory transport, brute-force chunkings of the
//! server's octets against the outcome TLC predicts, the forwarder's TCP connector end to
//! end over loopback TCP for the failure mapping (and, after success, the pipe ends it returns
//! relayed against a destination behind the scripted server), the tunnel-level slice through
//! the real `Tunnel` + HTTP/1.1 / HTTP/2 codecs with the real SOCKS5 forwarder (also run by
//! C02 for the relay and by C20 for the log records), and the RFC 1928 section 7 header
//! through `UdpAssociation::{send_to, recv_from}` against a loopback relay.
//!
//! `--totality` (C09): the reply reader and the relayed-datagram parser on the vectors of
//! MCSocks5Tot.tla; signatures `c09:socks5:*`.
//!
//! The oracle is the TLC output: expected messages (`AUTH`/`DEST` tables), expected
//! observations (`BEH.hist`), acceptable results (`BEH.accept`), parser verdicts
//! (`TOTR`/`TOTU`/`UDPU`). This file only drives and projects.

use serde_json::{json, Value};
use std::alloc::{GlobalAlloc, Layout, System};
use std::collections::{BTreeSet, HashMap, VecDeque};
use std::future::Future;
use std::io::{Read, Write};
use std::net::{IpAddr, Ipv4Addr, Ipv6Addr, SocketAddr};
use std::pin::Pin;
use std::sync::atomic::{AtomicUsize, Ordering};
use std::sync::{Arc, Mutex};
use std::task::{Context, Poll};
use std::time::Duration;
use tokio::io::{AsyncRead, AsyncWrite, ReadBuf};
use bytes::Bytes;
use tokio::io::{AsyncReadExt, AsyncWriteExt};
use trusttunnel::authentication::{Authenticator, Source, Status};
use trusttunnel::core::Core;
use trusttunnel::settings::{
    ForwardProtocolSettings, Http1Settings, Http2Settings, ListenProtocolSettings, Settings, Socks5ForwarderSettings,
};
use trusttunnel::shutdown::Shutdown;
use trusttunnel::verif::pipe::{SinkOut, SourceOut, VData, VSink, VSource};
use trusttunnel::verif::tunnel::{self, serve_tunnel, VProto};
use trusttunnel::verif::socks::{
    self, Association, AuthParams, AuthView, Creds, ErrView, Outcome, ReqOutcome, SocksForwarder, Target,
};
use ttv::*;

// ---------------------------------------------------------------------------------------
// allocation meter (peak live bytes above a mark), for the bounded-buffering clause of C09

struct Meter;
static LIVE: AtomicUsize = AtomicUsize::new(0);
static PEAK: AtomicUsize = AtomicUsize::new(0);

unsafe impl GlobalAlloc for Meter {
    unsafe fn alloc(&self, l: Layout) -> *mut u8 {
        let p = System.alloc(l);
        if !p.is_null() {
            let now = LIVE.fetch_add(l.size(), Ordering::Relaxed) + l.size();
            PEAK.fetch_max(now, Ordering::Relaxed);
        }
        p
    }
    unsafe fn dealloc(&self, p: *mut u8, l: Layout) {
        LIVE.fetch_sub(l.size(), Ordering::Relaxed);
        System.dealloc(p, l)
    }
}

#[global_allocator]
static METER: Meter = Meter;

fn meter_mark() -> usize {
    let live = LIVE.load(Ordering::Relaxed);
    PEAK.store(live, Ordering::Relaxed);
    live
}

fn meter_peak_above(mark: usize) -> usize {
    PEAK.load(Ordering::Relaxed).saturating_sub(mark)
}

// ---------------------------------------------------------------------------------------
// scripted transport

#[derive(Default)]
struct Wire {
    inbuf: VecDeque<u8>,
    eof: bool,
    written: Vec<u8>,
    consumed: usize,
}

#[derive(Clone, Default)]
struct ScriptIo(Arc<Mutex<Wire>>);

impl AsyncRead for ScriptIo {
    fn poll_read(self: Pin<&mut Self>, _cx: &mut Context<'_>, buf: &mut ReadBuf<'_>) -> Poll<std::io::Result<()>> {
        let mut w = self.0.lock().unwrap();
        if buf.remaining() == 0 {
            return Poll::Ready(Ok(()));
        }
        if w.inbuf.is_empty() {
            return if w.eof { Poll::Ready(Ok(())) } else { Poll::Pending };
        }
        let n = buf.remaining().min(w.inbuf.len());
        for _ in 0..n {
            let b = w.inbuf.pop_front().unwrap();
            buf.put_slice(&[b]);
        }
        w.consumed += n;
        Poll::Ready(Ok(()))
    }
}

impl AsyncWrite for ScriptIo {
    fn poll_write(self: Pin<&mut Self>, _cx: &mut Context<'_>, data: &[u8]) -> Poll<std::io::Result<usize>> {
        self.0.lock().unwrap().written.extend_from_slice(data);
        Poll::Ready(Ok(data.len()))
    }
    fn poll_flush(self: Pin<&mut Self>, _cx: &mut Context<'_>) -> Poll<std::io::Result<()>> {
        Poll::Ready(Ok(()))
    }
    fn poll_shutdown(self: Pin<&mut Self>, _cx: &mut Context<'_>) -> Poll<std::io::Result<()>> {
        Poll::Ready(Ok(()))
    }
}

// ---------------------------------------------------------------------------------------
// tables exported by TLC

struct AuthRow {
    src: String,
    ext: String,
    x: Vec<u8>,
    ok: bool,
    enc: bool,
    greeting: Vec<u8>,
    msg: Vec<u8>,
    user: Vec<u8>,
    pass: Vec<u8>,
    exts: Vec<(String, Vec<u8>)>,
    tls: Vec<u8>,
    ua: Vec<u8>,
    client: Vec<u8>,
}

struct DestRow {
    kind: String,
    /// the class of the address as the specification names it (ip4 / ip6 / ip6-mapped / ip6-low / name)
    form: String,
    cmd: u64,
    addr: Vec<u8>,
    port: u16,
    enc: bool,
    msg: Vec<u8>,
    wild_port: bool,
}

fn ip_of(b: &[u8]) -> IpAddr {
    if b.len() == 4 {
        IpAddr::V4(Ipv4Addr::new(b[0], b[1], b[2], b[3]))
    } else {
        let a: [u8; 16] = b.try_into().expect("16 octets");
        IpAddr::V6(Ipv6Addr::from(a))
    }
}

fn text(b: &[u8]) -> String {
    String::from_utf8(b.to_vec()).expect("the specification only hands text to text-typed inputs")
}

impl AuthRow {
    fn params(&self) -> AuthParams {
        AuthParams {
            creds: match self.src.as_str() {
                "none" => Creds::None,
                "basic" => Creds::Basic(text(&self.x)),
                "sni" => Creds::Sni(text(&self.x)),
                o => panic!("unknown credentials source {}", o),
            },
            extended: self.ext != "no",
            tls_domain: text(&self.tls),
            client_address: ip_of(&self.client),
            user_agent: if self.ext == "e4ua" || self.ext == "e4t" { Some(text(&self.ua)) } else { None },
        }
    }

    /// class of the credentials as the specification sees them (for signatures)
    fn class(&self) -> String {
        format!("{}/{}/{}/{}", self.src, self.ext, if self.ok { "usable" } else { "unusable" },
                if self.enc { "enc" } else { "unenc" })
    }
}

impl DestRow {
    fn target(&self) -> Target {
        if self.cmd == 3 {
            Target::UdpAssociate
        } else if self.kind == "ip" {
            Target::Ip(SocketAddr::new(ip_of(&self.addr), self.port))
        } else {
            Target::Domain(text(&self.addr), self.port)
        }
    }

    fn class(&self) -> String {
        format!("{}{}/{}", if self.cmd == 3 { "udp-" } else { "" }, self.form, if self.enc { "enc" } else { "unenc" })
    }
}

fn key_of(v: &Value) -> String {
    serde_json::to_string(v).unwrap()
}

struct Tables {
    auth: HashMap<String, AuthRow>,
    dest: HashMap<String, DestRow>,
}

fn load_tables(path: &str) -> Tables {
    let mut auth = HashMap::new();
    for a in read_tagged(path, "AUTH") {
        let row = AuthRow {
            src: a["src"].as_str().unwrap().to_string(),
            ext: a["ext"].as_str().unwrap().to_string(),
            x: bytes_of(&a["x"]),
            ok: a["ok"].as_bool().unwrap(),
            enc: a["enc"].as_bool().unwrap(),
            greeting: bytes_of(&a["greeting"]),
            msg: bytes_of(&a["msg"]),
            user: bytes_of(&a["user"]),
            pass: bytes_of(&a["pass"]),
            exts: a["exts"].as_array().map(|l| l.iter().map(|e| (e["name"].as_str().unwrap().to_string(), bytes_of(&e["v"]))).collect()).unwrap_or_default(),
            tls: bytes_of(&a["tls"]),
            ua: bytes_of(&a["ua"]),
            client: bytes_of(&a["client"]),
        };
        auth.insert(format!("{}|{}", key_of(&a["auth"]), row.ext), row);
    }
    let mut dest = HashMap::new();
    for d in read_tagged(path, "DEST") {
        dest.insert(d["dest"].as_str().unwrap().to_string(), DestRow {
            kind: d["kind"].as_str().unwrap().to_string(),
            form: d["form"].as_str().unwrap().to_string(),
            cmd: d["cmd"].as_u64().unwrap(),
            addr: bytes_of(&d["addr"]),
            port: d["port"].as_u64().unwrap() as u16,
            enc: d["enc"].as_bool().unwrap(),
            msg: bytes_of(&d["msg"]),
            wild_port: d["wildPort"].as_bool().unwrap(),
        });
    }
    Tables { auth, dest }
}

// ---------------------------------------------------------------------------------------
// driving the client by hand

#[derive(Clone, Copy, Debug)]
enum Ev {
    Deliver(usize),
    Eof,
}

struct Run {
    written: Vec<u8>,
    consumed: usize,
    /// (octets written, octets consumed, finished) observed just before each applied event
    checkpoints: Vec<(usize, usize, bool)>,
    applied: usize,
    outcome: Option<Outcome<ScriptIo>>,
}

fn token(o: &Outcome<ScriptIo>) -> String {
    match o {
        Outcome::MakeAuthError(_) => "Failed".into(),
        Outcome::Tcp(_) => "Established".into(),
        Outcome::Udp(_) => "UdpAssociated".into(),
        Outcome::Failure(c) => format!("Reply{}", c),
        Outcome::Err(ErrView::Authentication(_)) => "AuthError".into(),
        Outcome::Err(ErrView::Io(..)) | Outcome::Err(ErrView::Protocol(_)) => "Failed".into(),
    }
}

fn is_success(tok: &str) -> bool {
    tok == "Established" || tok == "UdpAssociated"
}

fn describe(o: &Outcome<ScriptIo>) -> String {
    match o {
        Outcome::MakeAuthError(e) => format!("make_auth error: {}", e),
        Outcome::Tcp(_) => "TcpConnection".into(),
        Outcome::Udp(_) => "UdpAssociation".into(),
        Outcome::Failure(c) => format!("Failure({})", c),
        Outcome::Err(e) => format!("{:?}", e),
    }
}

/// Poll until the future finishes or two consecutive polls leave the transport untouched
fn settle<F: Future>(fut: &mut Pin<Box<F>>, cx: &mut Context<'_>, wire: &Arc<Mutex<Wire>>) -> Option<F::Output> {
    let mut last = (usize::MAX, usize::MAX, usize::MAX);
    for _ in 0..64 {
        match Future::poll(fut.as_mut(), cx) {
            Poll::Ready(o) => return Some(o),
            Poll::Pending => {
                let w = wire.lock().unwrap();
                let snap = (w.written.len(), w.consumed, w.inbuf.len());
                if snap == last {
                    return None;
                }
                last = snap;
            }
        }
    }
    None
}

/// Run the real client against `stream`, delivering per `events`. The client is polled to
/// quiescence before every event (except before the first one when `preload`), and after the
/// last. Events stop being applied once the client has finished.
fn run_dialogue(params: &AuthParams, target: &Target, stream: &[u8], events: &[Ev], preload: bool) -> Run {
    let wire = Arc::new(Mutex::new(Wire::default()));
    let io = ScriptIo(wire.clone());
    let mut fut = Box::pin(socks::connect(io, params, target));
    let waker = futures::task::noop_waker();
    let mut cx = Context::from_waker(&waker);
    let mut outcome: Option<Outcome<ScriptIo>> = None;
    let mut checkpoints = Vec::with_capacity(events.len());
    let mut pos = 0usize;
    let mut applied = 0usize;

    for (i, ev) in events.iter().enumerate() {
        if !(i == 0 && preload) {
            if let Some(o) = settle(&mut fut, &mut cx, &wire) {
                outcome = Some(o);
            }
        }
        {
            let w = wire.lock().unwrap();
            checkpoints.push((w.written.len(), w.consumed, outcome.is_some()));
        }
        if outcome.is_some() {
            break;
        }
        let mut w = wire.lock().unwrap();
        match ev {
            Ev::Deliver(n) => {
                let n = (*n).min(stream.len() - pos);
                w.inbuf.extend(stream[pos..pos + n].iter().copied());
                pos += n;
            }
            Ev::Eof => w.eof = true,
        }
        applied += 1;
    }
    if outcome.is_none() {
        outcome = settle(&mut fut, &mut cx, &wire);
    }
    drop(fut);
    let w = wire.lock().unwrap();
    Run { written: w.written.clone(), consumed: w.consumed, checkpoints, applied, outcome }
}

// ---------------------------------------------------------------------------------------

struct Beh<'a> {
    v: &'a Value,
    auth: &'a AuthRow,
    dest: &'a DestRow,
    stream: Vec<u8>,
    emit: Vec<String>,
    used: usize,
    accept: BTreeSet<String>,
    accept_req: BTreeSet<String>,
    chunks: Vec<usize>,
    preload: bool,
    relay_port_at: usize,
    /// tunnel level: the scenario is also run with a destination behind the server
    tun: bool,
    /// what the client side of the tunnel must read after success (the destination's octets)
    down: Vec<u8>,
    /// what the client uploads once the tunnel is established
    upload: Vec<u8>,
    /// tunnel level: the responses the specification accepts for the request (status, X-Warning code, challenge)
    http: Vec<(u16, u16, bool)>,
    /// tunnel level, a multiplexer request: which one ("udp" / "icmp")
    mux: String,
    /// the upstream does not take the connection
    refuse: bool,
    /// the upstream falls silent after its octets, keeping the connection open
    silent: bool,
    /// the datagrams the client sends once a UDP multiplexer request is accepted
    flows: Vec<Flow>,
}

/// One datagram of the client on an accepted UDP multiplexer, as the specification describes it
struct Flow {
    /// the PROTOCOL.md 6.3 record the client writes
    record: Vec<u8>,
    /// it opens an association: the forwarder makes a handshake of its own for it
    opens: bool,
    /// what the server says in that handshake, the messages it must receive
    stream: Vec<u8>,
    emit: Vec<String>,
    relay_port_at: usize,
    /// the datagram the relay must receive
    relayed: Vec<u8>,
}

impl<'a> Beh<'a> {
    fn parse(v: &'a Value, t: &'a Tables) -> Self {
        let s = &v["scn"];
        let auth = t.auth.get(&format!("{}|{}", key_of(&s["auth"]), s["ext"].as_str().unwrap())).expect("AUTH row");
        let dest = t.dest.get(s["dest"].as_str().unwrap()).expect("DEST row");
        let strs = |x: &Value| x.as_array().unwrap().iter().map(|y| y.as_str().unwrap().to_string()).collect::<Vec<_>>();
        Beh {
            v,
            auth,
            dest,
            stream: bytes_of(&v["stream"]),
            emit: strs(&v["emit"]),
            used: v["used"].as_u64().unwrap() as usize,
            accept: strs(&v["accept"]).into_iter().collect(),
            accept_req: strs(&v["acceptReq"]).into_iter().collect(),
            chunks: s["chunks"].as_array().map(|a| a.iter().map(|x| x.as_u64().unwrap() as usize).collect()).unwrap_or_default(),
            preload: s["preload"].as_bool().unwrap(),
            relay_port_at: v["relayPortAt"].as_u64().unwrap() as usize,
            tun: s["tun"].as_bool().unwrap(),
            down: bytes_of(&v["down"]),
            upload: bytes_of(&v["upload"]),
            http: v["http"].as_array().map(|a| a.iter().map(|h| (h["status"].as_u64().unwrap() as u16, h["warn"].as_u64().unwrap() as u16, h["challenge"].as_bool().unwrap())).collect()).unwrap_or_default(),
            mux: s["mux"].as_str().unwrap_or("udp").to_string(),
            refuse: s["refuse"].as_bool().unwrap_or(false),
            silent: s["silent"].as_bool().unwrap_or(false),
            flows: v["flows"].as_array().map(|a| a.iter().map(|f| Flow {
                record: bytes_of(&f["record"]),
                opens: f["opens"].as_bool().unwrap(),
                stream: bytes_of(&f["stream"]),
                emit: strs(&f["emit"]),
                relay_port_at: f["relayPortAt"].as_u64().unwrap() as usize,
                relayed: bytes_of(&f["relayed"]),
            }).collect()).unwrap_or_default(),
        }
    }

    /// the octets of the messages `names` (and the range the specification leaves free: the port of the client's own UDP socket)
    fn messages(&self, names: &[String]) -> (Vec<u8>, Option<(usize, usize)>) {
        let mut out = Vec::new();
        let mut wild = None;
        for name in names {
            out.extend_from_slice(self.msg(name));
            if name == "request" && self.dest.wild_port {
                wild = Some((out.len() - 2, out.len()));
            }
        }
        (out, wild)
    }

    /// what the SOCKS5 server must have received when the request is over: the messages, then the upload
    fn expected_at_server(&self) -> (Vec<u8>, Option<(usize, usize)>) {
        let (mut want, wild) = self.expected_written(self.emit.len());
        if self.accept.contains("Established") {
            want.extend_from_slice(&self.upload);
        }
        (want, wild)
    }

    fn msg(&self, name: &str) -> &[u8] {
        match name {
            "greeting" => &self.auth.greeting,
            "auth" => &self.auth.msg,
            "request" => &self.dest.msg,
            o => panic!("unknown message {}", o),
        }
    }

    /// expected octets after the first `k` messages; the second value is the range of
    /// octets the specification leaves free (the port of the client's own UDP socket)
    fn expected_written(&self, k: usize) -> (Vec<u8>, Option<(usize, usize)>) {
        let mut out = Vec::new();
        let mut wild = None;
        for name in self.emit.iter().take(k) {
            out.extend_from_slice(self.msg(name));
            if name == "request" && self.dest.wild_port {
                wild = Some((out.len() - 2, out.len()));
            }
        }
        (out, wild)
    }

    /// signature class: the scenario as the specification classifies it — credentials class,
    /// destination class, how far the specification's dialogue goes and what it accepts —
    /// without the server's individual octets and without the chunking
    fn class(&self) -> String {
        format!("{}:{}{}:{}:{}", self.auth.class(), self.dest.class(), if self.mux != "udp" { format!("({})", self.mux) } else { String::new() },
                if self.refuse { "refused".to_string() } else if self.silent { format!("{}+silence", self.emit.join("+")) } else if self.emit.is_empty() { "silent".to_string() } else { self.emit.join("+") },
                self.accept.iter().cloned().collect::<Vec<_>>().join("|"))
    }

    /// the scenario's own identity (for de-duplication and the non-trivial count)
    fn ident(&self) -> String {
        let s = &self.v["scn"];
        format!("{}|{}|{}|{}|{}|{}{}", key_of(&s["auth"]), s["ext"], s["dest"], hex(&self.stream), s["exact"], s["trunc"],
                if self.refuse || self.silent || self.mux != "udp" || !self.flows.is_empty() { format!("|{}|{}|{}|{}", self.mux, self.refuse, self.silent, self.flows.len()) } else { String::new() })
    }

    fn stream_for(&self, relay_port: u16) -> Vec<u8> {
        patch_port(&self.stream, self.relay_port_at, relay_port)
    }
}

fn patch_port(stream: &[u8], at: usize, relay_port: u16) -> Vec<u8> {
    let mut s = stream.to_vec();
    if at > 0 && at < s.len() {
        let p = relay_port.to_be_bytes();
        s[at - 1] = p[0];
        s[at] = p[1];
    }
    s
}

fn same_written(got: &[u8], want: &[u8], wild: Option<(usize, usize)>) -> bool {
    if got.len() != want.len() {
        return false;
    }
    got.iter().zip(want.iter()).enumerate().all(|(i, (g, w))| g == w || matches!(wild, Some((a, b)) if i >= a && i < b))
}

fn short_hex(b: &[u8]) -> String {
    if b.len() <= 96 { hex(b) } else { format!("{}..({} octets)..{}", hex(&b[..40]), b.len(), hex(&b[b.len() - 8..])) }
}

/// Compare the end of a run with what the specification predicts. Returns (what, message).
fn check_final(b: &Beh, run: &Run) -> Option<(&'static str, String)> {
    let Some(outcome) = &run.outcome else {
        return Some(("stall", format!("the client is still waiting after {} octets and the end of the stream; the specification has finished ({:?})", run.consumed, b.accept)));
    };
    let (want, wild) = b.expected_written(b.emit.len());
    if !same_written(&run.written, &want, wild) {
        return Some(("emit", format!("client wrote {} ; the specification's messages {:?} are {}", short_hex(&run.written), b.emit, short_hex(&want))));
    }
    if let (Outcome::Udp(a), Some((lo, _))) = (outcome, wild) {
        let port = a.local_addr().map(|x| x.port()).unwrap_or(0);
        if run.written[lo..lo + 2] != port.to_be_bytes() {
            return Some(("emit", format!("UDP ASSOCIATE announced port {:?}, the socket is bound to {}", &run.written[lo..lo + 2], port)));
        }
    }
    let tok = token(outcome);
    if !b.accept.contains(&tok) {
        return Some(("result", format!("client result {} ({}), the specification accepts {:?}", tok, describe(outcome), b.accept)));
    }
    // how much of the stream a *failed* request took is nobody's business (the connection is
    // dropped); after success the rest of the stream is tunnel payload and must be untouched
    if is_success(&tok) && run.consumed != b.used {
        return Some(("used", format!("client took {} octets of the server's stream, the specification {}", run.consumed, b.used)));
    }
    None
}

fn guarded<T>(sig: String, what: &str, detail: Value, f: impl FnOnce() -> T) -> Result<T, String> {
    let w = what.to_string();
    watchdog::enter(move || (sig, w, detail));
    let r = catch(f);
    watchdog::leave();
    r
}

fn events_of(chunks: &[usize], len: usize) -> Vec<Ev> {
    let mut ev = Vec::new();
    let mut pos = 0;
    for c in chunks {
        if pos >= len {
            break;
        }
        let n = (*c).min(len - pos);
        ev.push(Ev::Deliver(n));
        pos += n;
    }
    if pos < len {
        ev.push(Ev::Deliver(len - pos));
    }
    ev.push(Ev::Eof);
    ev
}

fn req_token(o: &ReqOutcome) -> &'static str {
    match o {
        ReqOutcome::Established => "Established",
        ReqOutcome::HostUnreachable => "HostUnreachable",
        ReqOutcome::Timeout => "Timeout",
        ReqOutcome::Authentication(_) => "AuthError",
        ReqOutcome::Io(..) | ReqOutcome::Other(_) | ReqOutcome::DnsNonroutable | ReqOutcome::DnsLoopback => "Failed",
    }
}

fn main() {
    if std::env::var_os("C15_LOUD").is_none() {
        quiet_panics();
    }
    logcap::install();
    let vectors = arg("--vectors").expect("--vectors");
    let out_path = arg("--out").expect("--out");
    let thorough = tier_thorough();
    watchdog::arm(&out_path, Duration::from_secs(20));
    let rt = tokio::runtime::Builder::new_current_thread().enable_all().build().expect("runtime");
    let _guard = rt.enter();

    if std::env::args().any(|a| a == "--totality") {
        totality(&rt, &vectors, &out_path);
    }

    let mut rep = Report::new("c15");
    let started = std::time::Instant::now();
    let phase = |name: &str| {
        if std::env::var_os("C15_TIMES").is_some() {
            eprintln!("[{:7.2}s] {}", started.elapsed().as_secs_f64(), name);
        }
    };
    let tables = load_tables(&vectors);
    if tables.auth.is_empty() || tables.dest.is_empty() {
        panic!("no AUTH/DEST tables in {}", vectors);
    }
    for a in tables.auth.values() {
        if a.src != "none" {
            let (u, p) = (String::from_utf8_lossy(&a.user).to_string(), String::from_utf8_lossy(&a.pass).to_string());
            logcap::plant("socks5-credentials", &String::from_utf8_lossy(&a.x), &[&u, &p]);
        }
    }

    // the loopback relay every UDP ASSOCIATE scenario points at
    let relay = std::net::UdpSocket::bind("127.0.0.1:0").expect("relay socket");
    relay.set_read_timeout(Some(Duration::from_secs(5))).unwrap();
    let relay_port = relay.local_addr().unwrap().port();

    // ---- make_auth / make_extended_auth alone ------------------------------------------
    for (k, a) in &tables.auth {
        rep.eval();
        logcap::set_scenario(&format!("make_auth {}", k));
        let got = catch(|| socks::make_auth_view(&a.params()));
        let want: Result<Option<AuthView>, ()> = if !a.ok {
            Err(())
        } else if a.src == "none" {
            Ok(None)
        } else if a.ext == "no" {
            Ok(Some(AuthView::UserPass { user: a.user.clone(), pass: a.pass.clone() }))
        } else {
            Ok(Some(AuthView::Extended(a.exts.iter().map(|(n, v)| (leak(n), v.clone())).collect())))
        };
        if a.src != "none" {
            rep.nontrivial(format!("auth|{}", k));
        }
        let ok = match (&got, &want) {
            (Ok(Err(_)), Err(())) => true,
            (Ok(Ok(g)), Ok(w)) => g == w,
            _ => false,
        };
        if !ok {
            let what = match &got { Err(_) => "panic", _ => "convert" };
            rep.violation(format!("socks5:{}:{}", what, a.class()),
                "credentials conversion differs from the specification (user/password are the halves at the first colon; extended fields verbatim)",
                json!({"kind": "make_auth", "auth": k, "x": String::from_utf8_lossy(&a.x), "observed": format!("{:?}", got).chars().take(600).collect::<String>(),
                       "expected_ok": a.ok, "expected_user": short_hex(&a.user), "expected_pass": short_hex(&a.pass)}));
        }
    }

    // ---- behaviours --------------------------------------------------------------------
    let raw = read_tagged(&vectors, "BEH");
    let behs: Vec<Beh> = raw.iter().map(|v| Beh::parse(v, &tables)).collect();
    let mut bases: HashMap<String, usize> = HashMap::new();
    let mut udp_assoc: Option<Association<ScriptIo>> = None;
    for (bi, b) in behs.iter().enumerate() {
        rep.eval();
        let class = b.class();
        logcap::set_scenario(&class);
        // an upstream that does not take the connection: there is no transport to script; one that falls
        // silent: the dialogue does not end by itself, the tunnel's establishment timer ends it (tunnel level only)
        if b.refuse || b.silent {
            continue;
        }
        let hist = b.v["hist"].as_array().unwrap();
        let events: Vec<Ev> = hist.iter().map(|h| if h["ev"] == "eof" { Ev::Eof } else { Ev::Deliver(h["n"].as_u64().unwrap() as usize) }).collect();
        let stream = b.stream_for(relay_port);
        if b.auth.src != "none" || b.chunks.len() > 0 || b.accept.iter().any(|t| t != "Established") {
            rep.nontrivial(format!("{}|{:?}|{}", b.ident(), b.chunks, b.preload));
        }
        if bi % 997 == 3 {
            rep.sample(json!({"scn": b.v["scn"], "emit": b.emit, "used": b.used, "accept": b.v["accept"], "events": hist.len()}));
        }
        let detail = |obs: Value| json!({"kind": "behaviour", "scn": b.v["scn"], "stream": hex(&stream), "x": String::from_utf8_lossy(&b.auth.x),
                                         "expected": {"emit": b.emit, "used": b.used, "accept": b.v["accept"], "hist": b.v["hist"]}, "observed": obs});
        let (params, target) = (b.auth.params(), b.dest.target());
        let first_pre_emitted = hist.first().map(|h| h["pre"]["emitted"].as_u64().unwrap()).unwrap_or(1);
        let run = guarded(format!("socks5:hang:{}", class), "the client did not return from poll", detail(json!(null)),
                          || run_dialogue(&params, &target, &stream, &events, first_pre_emitted == 0));
        let run = match run {
            Err(p) => {
                rep.violation_with(format!("socks5:panic:{}", class), format!("the client panicked: {}", p), || detail(json!({"panic": p})));
                continue;
            }
            Ok(r) => r,
        };
        let obs = |run: &Run| json!({"written": short_hex(&run.written), "consumed": run.consumed, "checkpoints": run.checkpoints,
                                     "events_applied": run.applied, "result": run.outcome.as_ref().map(describe)});
        // step-wise: the observation before every delivery
        let mut bad: Option<(&'static str, String)> = None;
        for (i, h) in hist.iter().enumerate() {
            let Some(cp) = run.checkpoints.get(i) else { break };
            let pre = &h["pre"];
            let (want, wild) = b.expected_written(pre["emitted"].as_u64().unwrap() as usize);
            if cp.2 {
                // finishing before the specification's client does is acceptable for a failure the
                // specification accepts (a failed request need not read the rest of a reply);
                // check_final decides that. A success must have read what the specification reads.
                if run.outcome.as_ref().map(|o| is_success(&token(o))).unwrap_or(false) {
                    bad = Some(("early", format!("the client finished ({}) before delivery {}; the specification is still reading", run.outcome.as_ref().map(describe).unwrap_or_default(), i)));
                }
                break;
            } else if cp.0 != want.len() || !same_written(&run.written[..cp.0], &want, wild) {
                bad = Some(("emit", format!("before delivery {} the client had written {} ; the specification's first {} message(s) are {}", i, short_hex(&run.written[..cp.0]), pre["emitted"], short_hex(&want))));
            } else if cp.1 != pre["used"].as_u64().unwrap() as usize {
                bad = Some(("used", format!("before delivery {} the client had taken {} octets, the specification {}", i, cp.1, pre["used"])));
            }
            if bad.is_some() {
                break;
            }
        }
        let bad = bad.or_else(|| check_final(b, &run));
        if let Some((what, msg)) = bad {
            rep.violation_with(format!("socks5:{}:{}", what, class), msg, || detail(obs(&run)));
            continue;
        }
        if let Some(Outcome::Udp(a)) = run.outcome {
            if udp_assoc.is_none() {
                udp_assoc = Some(a);
            }
        }
        if b.chunks.is_empty() && !b.preload {
            bases.entry(format!("{}|{}|{}|{}", key_of(&b.v["scn"]["auth"]), b.v["scn"]["ext"], b.v["scn"]["dest"], hex(&b.stream))).or_insert(bi);
        }
    }
    rep.count("tlc_behaviours_replayed", behs.len() as u64);
    phase("behaviours replayed");

    // ---- every chunking of the server's octets, against the outcome TLC predicts --------
    let mut seg = 0u64;
    let mut base_ids: Vec<usize> = bases.values().copied().collect();
    base_ids.sort();
    for bi in base_ids {
        let b = &behs[bi];
        let stream = b.stream_for(relay_port);
        let n = stream.len();
        if n > 48 {
            continue;
        }
        let class = b.class();
        let (params, target) = (b.auth.params(), b.dest.target());
        let udp = b.dest.wild_port;
        let mut check = |cuts: &[usize], rep: &mut Report| {
            let mut lens = Vec::with_capacity(cuts.len());
            let mut prev = 0;
            for c in cuts {
                lens.push(c - prev);
                prev = *c;
            }
            seg += 1;
            let events = events_of(&lens, n);
            let detail = |obs: Value| json!({"kind": "chunking", "scn": b.v["scn"], "stream": hex(&stream), "chunks": lens,
                                             "expected": {"emit": b.emit, "used": b.used, "accept": b.v["accept"]}, "observed": obs});
            match guarded(format!("socks5:hang:{}", class), "the client did not return from poll", detail(json!(null)),
                          || run_dialogue(&params, &target, &stream, &events, false)) {
                Err(p) => rep.violation_with(format!("socks5:panic:{}", class), format!("the client panicked: {}", p), || detail(json!({"panic": p}))),
                Ok(run) => {
                    if let Some((what, msg)) = check_final(b, &run) {
                        rep.violation_with(format!("socks5:{}:{}", what, class), format!("depends on the chunking: {}", msg),
                            || detail(json!({"written": short_hex(&run.written), "consumed": run.consumed, "result": run.outcome.as_ref().map(describe)})));
                    }
                }
            }
        };
        for a in 1..n {
            check(&[a], &mut rep);
        }
        if !udp {
            for a in 1..n {
                for c in a + 1..n {
                    check(&[a, c], &mut rep);
                }
            }
            if thorough && n <= 20 {
                for a in 1..n {
                    for c in a + 1..n {
                        for d in c + 1..n {
                            check(&[a, c, d], &mut rep);
                        }
                    }
                }
            }
        }
        if n > 1 {
            let all: Vec<usize> = (1..n).collect();
            check(&all, &mut rep);
        }
    }
    rep.evals(seg);
    rep.count("brute_force_chunkings", seg);
    phase("chunkings done");

    // ---- the forwarder's TCP connector end to end (failure mapping) ----------------------
    forwarder_level(&rt, &behs, &mut rep, thorough);

    // ---- the real Tunnel + HTTP codecs with the SOCKS5 forwarder ---------------------------
    phase("forwarder level done");
    tunnel_level(&rt, &behs, &relay, &mut rep);
    phase("tunnel level done");

    // ---- RFC 1928 section 7 through a real association ---------------------------------
    match udp_assoc {
        None => rep.note("no behaviour produced a UDP association: UDP header vectors not executed"),
        Some(assoc) => udp_vectors(&rt, &assoc, &relay, &vectors, "UDPW", "UDPU", "socks5:udp", &mut rep),
    }

    rep.finish(&out_path)
}

fn leak(s: &str) -> &'static str {
    match s {
        "domain" => "domain",
        "client_address" => "client_address",
        "user_agent" => "user_agent",
        "proxy_auth" => "proxy_auth",
        "sni_auth" => "sni_auth",
        _ => "other",
    }
}

// ---------------------------------------------------------------------------------------
// forwarder level: Socks5Forwarder::tcp_connector().connect() against a loopback server

fn forwarder_level(rt: &tokio::runtime::Runtime, behs: &[Beh], rep: &mut Report, thorough: bool) {
    let listener = std::net::TcpListener::bind("127.0.0.1:0").expect("listener");
    let addr = listener.local_addr().unwrap();
    let (script_tx, script_rx) = std::sync::mpsc::channel::<Vec<u8>>();
    let (got_tx, got_rx) = std::sync::mpsc::channel::<(Vec<u8>, bool)>();
    std::thread::spawn(move || {
        for conn in listener.incoming() {
            let Ok(mut c) = conn else { break };
            let Ok(script) = script_rx.recv() else { break };
            let _ = c.set_read_timeout(Some(Duration::from_secs(10)));
            let _ = c.write_all(&script);
            let _ = c.shutdown(std::net::Shutdown::Write);
            let mut got = Vec::new();
            // a client that closes with unread octets resets the connection; what it had sent
            // may then be lost to this reader, so the octets are only compared after a clean end
            let clean = c.read_to_end(&mut got).is_ok();
            if got_tx.send((got, clean)).is_err() {
                break;
            }
        }
    });
    let hosts: trusttunnel::settings::TlsHostsSettings =
        toml::from_str("main_hosts = []\n").expect("empty TLS hosts settings");
    let mk = |extended: bool| {
        let settings = trusttunnel::settings::Settings::builder()
            .listen_address("127.0.0.1:1").unwrap()
            .listen_protocols(trusttunnel::settings::ListenProtocolSettings {
                http1: Some(trusttunnel::settings::Http1Settings::builder().build()),
                ..Default::default()
            })
            .forwarder_settings(trusttunnel::settings::ForwardProtocolSettings::Socks5(
                trusttunnel::settings::Socks5ForwarderSettings::builder()
                    .server_address(addr).unwrap()
                    .extended_auth(extended)
                    .build().expect("socks settings"),
            ))
            .build().expect("settings");
        SocksForwarder::new(settings, &hosts).expect("forwarder context")
    };
    let fwd = [mk(false), mk(true)];
    let mut seen = BTreeSet::new();
    let mut n = 0u64;
    let mut resets = 0u64;
    let cap = if thorough { 8000 } else { 3000 };
    // the tunnel-level scenarios first (the cap must not cut them)
    let mut order: Vec<&Beh> = behs.iter().filter(|b| b.tun).collect();
    order.extend(behs.iter().filter(|b| !b.tun));
    let mut relayed = 0u64;
    for b in order {
        // only dialogues in which the client reads the server's stream to its end: a client
        // closing with unread octets resets the connection and the scripted server may lose
        // octets it has not read yet. After success the pipe's source is read to the end of the
        // stream, so a destination behind the server may have sent anything.
        let success = b.accept.len() == 1 && b.accept.contains("Established");
        if !b.chunks.is_empty() || b.dest.wild_port || b.refuse || b.silent || !(b.used == b.stream.len() || (b.tun && success)) || n >= cap {
            continue;
        }
        let class = b.class();
        if !seen.insert(format!("{}|{}|{}|{}", key_of(&b.v["scn"]["auth"]), b.v["scn"]["ext"], b.v["scn"]["dest"], hex(&b.stream))) {
            continue;
        }
        n += 1;
        rep.eval();
        logcap::set_scenario(&format!("forwarder {}", class));
        rep.nontrivial(format!("fwd|{}", b.ident()));
        let p = b.auth.params();
        let target = b.dest.target();
        let f = &fwd[if p.extended { 1 } else { 0 }];
        script_tx.send(b.stream.clone()).expect("server thread");
        let detail = |obs: Value| json!({"kind": "forwarder", "scn": b.v["scn"], "stream": hex(&b.stream), "x": String::from_utf8_lossy(&b.auth.x),
                                         "expected": {"emit": b.emit, "acceptReq": b.v["acceptReq"]}, "observed": obs});
        let res = guarded(format!("socks5:fwd-hang:{}", class), "the TCP connector did not return", detail(json!(null)), || {
            rt.block_on(async {
                tokio::time::timeout(Duration::from_secs(15), async {
                    let mut pipe = None;
                    let out = f.tcp_connect_pipe(&p.creds, &p.tls_domain, p.client_address, p.user_agent.as_deref(), &target, &mut pipe).await;
                    // the connection the connector returns is the tunnel: upload through its sink,
                    // read its source to the destination's end of stream
                    let relay = match pipe.take() {
                        Some((mut src, mut snk)) => Some(relay_through(&mut src, &mut snk, &b.upload).await),
                        None => None,
                    };
                    (out, relay)
                }).await
            })
        });
        let got = got_rx.recv_timeout(Duration::from_secs(15));
        let (out, relay) = match res {
            Err(pn) => {
                rep.violation_with(format!("socks5:fwd-panic:{}", class), format!("the TCP connector panicked: {}", pn), || detail(json!({"panic": pn})));
                continue;
            }
            Ok(Err(_)) => {
                rep.violation_with(format!("socks5:fwd-hang:{}", class), "the TCP connector did not finish within 15 s of the server closing", || detail(json!(null)));
                continue;
            }
            Ok(Ok(o)) => o,
        };
        let Ok((got, clean)) = got else {
            rep.note(format!("forwarder level: the scripted server did not report for {}", class));
            continue;
        };
        if !clean {
            resets += 1;
        }
        let (want, _) = b.expected_at_server();
        if clean && got != want {
            // the messages are the dialogue's business, what follows them is the tunnel's
            let msgs = want.len() - if success { b.upload.len() } else { 0 };
            let what = if success && got.len() >= msgs && got[..msgs] == want[..msgs] { "fwd-up" } else { "fwd-emit" };
            rep.violation_with(format!("socks5:{}:{}", what, class), format!("the SOCKS5 server received {} ; the specification's messages {:?}{} are {}", short_hex(&got), b.emit,
                    if b.upload.is_empty() { String::new() } else { format!(" and the {} uploaded octets", b.upload.len()) }, short_hex(&want)),
                || detail(json!({"received": short_hex(&got), "result": format!("{:?}", out)})));
            continue;
        }
        let tok = req_token(&out);
        if !b.accept_req.contains(tok) {
            rep.violation_with(format!("socks5:fwd-result:{}", class), format!("the request ended as {} ({:?}); the specification accepts {:?}", tok, out, b.accept_req),
                || detail(json!({"result": format!("{:?}", out)})));
            continue;
        }
        // the tunnel: what the pipe reads after the reply is the destination's octets, all of them and nothing else
        if let Some((down, err)) = relay {
            relayed += 1;
            let bnd = b.v["scn"]["bnd"].as_str().unwrap_or("?");
            if let Some(e) = err {
                rep.violation_with(format!("socks5:fwd-relay-error:{}:bnd-{}", class, bnd), format!("relaying through the connector's pipe ends failed: {}", e),
                    || detail(json!({"read": short_hex(&down), "error": e})));
            } else if down != b.down {
                rep.violation_with(format!("socks5:fwd-down:{}:bnd-{}", class, bnd),
                    format!("after the reply the pipe's source delivered {} octets {} ; the destination sent {} octets {}", down.len(), short_hex(&down), b.down.len(), short_hex(&b.down)),
                    || detail(json!({"read": short_hex(&down), "destination_sent": short_hex(&b.down)})));
            }
        }
    }
    rep.count("forwarder_level_requests", n);
    rep.count("forwarder_level_relays", relayed);
    rep.count("forwarder_level_resets", resets);
}

// ---------------------------------------------------------------------------------------
// tunnel level: Tunnel::listen + HttpDownstream + the HTTP/1.1 and HTTP/2 codecs with the real
// Socks5Forwarder (selected by the settings, not scripted) against a scripted SOCKS5 server on
// loopback TCP behind which a destination sends `down` and receives the client's upload.
// Everything the endpoint logs on the way is searched for the credentials (C20).

struct AcceptAll;

impl Authenticator for AcceptAll {
    fn authenticate(&self, _: &Source<'_>, _: &trusttunnel::log_utils::IdChain<u64>) -> Status {
        Status::Pass
    }
}

struct Serve {
    script: Vec<u8>,
    /// octets the client side is expected to send in all (the server ends its side once it has them)
    want_len: usize,
    /// report as soon as those octets are there and keep the connection open (the control connection
    /// of a UDP association lives as long as the association) until the next job that is not detached
    detach: bool,
}

#[derive(Default, Debug)]
struct Served {
    connected: bool,
    got: Vec<u8>,
    /// false: the connection was reset (what the client had sent may be lost to the server)
    clean: bool,
    timed_out: bool,
}

/// The scripted SOCKS5 server: per job one connection. It says everything it has to say at once
/// (replies and the destination's octets: TCP is a byte stream, how it is cut is not the
/// client's business), ends its side once the client's octets are there, and reads to the end.
fn scripted_socks_server(listener: std::net::TcpListener, jobs: std::sync::mpsc::Receiver<Serve>, done: std::sync::mpsc::Sender<Served>,
                         cancel: Arc<std::sync::atomic::AtomicBool>, ready: std::sync::mpsc::Sender<usize>) {
    listener.set_nonblocking(true).expect("nonblocking listener");
    let mut timeouts = 0u32;
    let mut parked: Vec<std::net::TcpStream> = Vec::new();
    while let Ok(job) = jobs.recv() {
        if !job.detach {
            parked.clear();
        }
        // A job is handed over before the step that makes the endpoint connect: a connection that is already
        // waiting was made for an earlier scenario (a step that was given up, a retry) and is not this job's.
        // The driver goes on once it is told that the listener is clean.
        let mut stale = 0usize;
        while let Ok((c, _)) = listener.accept() {
            drop(c);
            stale += 1;
        }
        if ready.send(stale).is_err() {
            break;
        }
        let conn = loop {
            match listener.accept() {
                Ok((c, _)) => break Some(c),
                Err(e) if e.kind() == std::io::ErrorKind::WouldBlock => {
                    if cancel.load(Ordering::SeqCst) {
                        break None;
                    }
                    std::thread::sleep(Duration::from_millis(1));
                }
                Err(_) => break None,
            }
        };
        let Some(mut c) = conn else {
            if done.send(Served::default()).is_err() {
                break;
            }
            continue;
        };
        let _ = c.set_nonblocking(false);
        // a client side that sends less than the specification says keeps this server waiting; that
        // scenario is a violation (the octets differ), and the ones after it wait less long
        let patience = if timeouts == 0 { 8 } else { 1 };
        let _ = c.set_read_timeout(Some(Duration::from_secs(patience)));
        let _ = c.set_nodelay(true);
        // acknowledge at once: the forwarder's socket (Nagle) would otherwise hold small writes back
        // for the delayed-acknowledgement timer, which only costs time
        let quickack = |c: &std::net::TcpStream| unsafe {
            use std::os::fd::AsRawFd;
            let one: libc::c_int = 1;
            libc::setsockopt(c.as_raw_fd(), libc::IPPROTO_TCP, libc::TCP_QUICKACK, &one as *const _ as *const libc::c_void, std::mem::size_of::<libc::c_int>() as libc::socklen_t);
        };
        quickack(&c);
        let mut r = Served { connected: true, clean: true, ..Default::default() };
        let _ = c.write_all(&job.script);
        let mut buf = [0u8; 16384];
        let mut ended = false;
        while r.got.len() < job.want_len && !ended {
            quickack(&c);
            match c.read(&mut buf) {
                Ok(0) => ended = true,
                Ok(n) => r.got.extend_from_slice(&buf[..n]),
                Err(e) if matches!(e.kind(), std::io::ErrorKind::WouldBlock | std::io::ErrorKind::TimedOut) => {
                    r.timed_out = true;
                    break;
                }
                Err(_) => {
                    r.clean = false;
                    ended = true;
                }
            }
        }
        if job.detach {
            if r.timed_out {
                timeouts += 1;
            }
            parked.push(c);
            if done.send(r).is_err() {
                break;
            }
            continue;
        }
        let _ = c.shutdown(std::net::Shutdown::Write);
        while !ended {
            match c.read(&mut buf) {
                Ok(0) => ended = true,
                Ok(n) => r.got.extend_from_slice(&buf[..n]),
                Err(e) if matches!(e.kind(), std::io::ErrorKind::WouldBlock | std::io::ErrorKind::TimedOut) => {
                    r.timed_out = true;
                    ended = true;
                }
                Err(_) => {
                    r.clean = false;
                    ended = true;
                }
            }
        }
        if r.timed_out {
            timeouts += 1;
        }
        if done.send(r).is_err() {
            break;
        }
    }
}

#[derive(Default, Debug)]
struct TunObs {
    status: Option<u16>,
    /// what followed the response head on the client's side
    down: Vec<u8>,
    /// the client saw the end of the stream
    ended: bool,
    note: String,
    /// X-Warning code of the response (0: none), and whether it carries a Basic challenge
    warn: u16,
    challenge: bool,
    /// a session with flows: what the scripted server saw of the request's own handshake, and of every flow's
    probe_served: Option<Served>,
    flow_served: Vec<Option<Served>>,
    /// per datagram of the client: what arrived at the relay
    flow_relayed: Vec<Option<Vec<u8>>>,
}

/// The flows of an accepted UDP multiplexer request: the records the client writes, and for a
/// flow that opens an association the job of the scripted server
struct Session<'a> {
    flows: Vec<(Vec<u8>, Option<(Vec<u8>, usize)>)>,
    job_tx: &'a std::sync::mpsc::Sender<Serve>,
    done_rx: &'a std::sync::mpsc::Receiver<Served>,
    cancel: &'a std::sync::atomic::AtomicBool,
    /// the request has a handshake of its own (its credentials are probed)
    probed: bool,
    /// the UDP relay the scripted server's replies name
    relay: &'a std::net::UdpSocket,
    /// the scripted server has taken a job (and how many left-over connections it dropped first)
    ready_rx: &'a std::sync::mpsc::Receiver<usize>,
    stale: &'a std::cell::Cell<usize>,
}

/// Wait (without blocking the runtime) for a datagram at the relay
async fn wait_relayed(relay: &std::net::UdpSocket, limit: Duration) -> Option<Vec<u8>> {
    let t0 = std::time::Instant::now();
    let mut buf = vec![0u8; 70000];
    loop {
        if let Ok(n) = relay.recv(&mut buf) {
            return Some(buf[..n].to_vec());
        }
        if t0.elapsed() > limit {
            return None;
        }
        tokio::time::sleep(Duration::from_millis(1)).await;
    }
}

/// Wait (without blocking the runtime the endpoint runs on) for the scripted server's report
async fn wait_served(done_rx: &std::sync::mpsc::Receiver<Served>, limit: Duration) -> Option<Served> {
    let t0 = std::time::Instant::now();
    loop {
        if let Ok(s) = done_rx.try_recv() {
            return Some(s);
        }
        if t0.elapsed() > limit {
            return None;
        }
        tokio::time::sleep(Duration::from_millis(1)).await;
    }
}

/// the client's side of an accepted multiplexer stream
enum Up<'a> {
    H1(&'a mut tokio::io::DuplexStream),
    H2(&'a mut h2::SendStream<Bytes>),
}

impl Up<'_> {
    async fn write(&mut self, rec: Vec<u8>) -> bool {
        match self {
            Up::H1(c) => c.write_all(&rec).await.is_ok() && c.flush().await.is_ok(),
            Up::H2(u) => u.send_data(Bytes::from(rec), false).is_ok(),
        }
    }
}

impl Session<'_> {
    /// After the 200: the request's own handshake is over; then datagram by datagram
    async fn drive(&self, obs: &mut TunObs, mut up: Up<'_>) {
        if self.probed {
            obs.probe_served = wait_served(self.done_rx, Duration::from_secs(10)).await;
        }
        if self.probed && obs.probe_served.is_none() {
            obs.note = "the scripted server did not see the end of the request's own handshake".into();
            return;
        }
        let _ = self.relay.set_nonblocking(true);
        let mut scratch = [0u8; 2048];
        while self.relay.recv(&mut scratch).is_ok() {}
        for (record, job) in &self.flows {
            if let Some((script, want_len)) = job {
                self.cancel.store(false, Ordering::SeqCst);
                let _ = self.job_tx.send(Serve { script: script.clone(), want_len: *want_len, detach: true });
                // (the server thread needs no help from this runtime: waiting for it here is safe)
                if let Ok(n) = self.ready_rx.recv_timeout(Duration::from_secs(30)) {
                    self.stale.set(self.stale.get() + n);
                }
            }
            if !up.write(record.clone()).await {
                obs.note = "the multiplexer stream did not take the client's datagram".into();
            }
            // (let the endpoint work even when no handshake is expected for this datagram)
            tokio::time::sleep(Duration::from_millis(2)).await;
            if job.is_some() {
                let mut got = wait_served(self.done_rx, Duration::from_secs(8)).await;
                if got.is_none() {
                    // nothing connected: release the server from waiting, and take its (empty) report
                    self.cancel.store(true, Ordering::SeqCst);
                    got = wait_served(self.done_rx, Duration::from_secs(10)).await;
                }
                obs.flow_served.push(got);
            } else {
                obs.flow_served.push(None);
            }
            // the datagram itself: through the association to the relay
            let opened = job.is_none() || obs.flow_served.last().and_then(|x| x.as_ref()).map(|x| x.connected).unwrap_or(false);
            obs.flow_relayed.push(if opened { wait_relayed(self.relay, Duration::from_secs(4)).await } else { None });
        }
        let _ = self.relay.set_nonblocking(false);
    }
}

const STEP: Duration = Duration::from_secs(15);

#[allow(clippy::too_many_arguments)]
async fn tunnel_request(core: &'static Core, proto: VProto, peer: SocketAddr, server_name: String, sni: Option<String>,
                        authority: String, basic: Option<String>, upload: Vec<u8>, relay: bool, session: Option<&Session<'_>>, patience: Duration, user_agent: Option<String>) -> TunObs {
    let step = patience;
    let mut obs = TunObs::default();
    let (mut cio, sio) = tokio::io::duplex(1 << 20);
    let task = tokio::spawn(async move {
        let _ = serve_tunnel(core, proto, sio, peer, server_name, sni).await;
    });
    match proto {
        VProto::Http1 => {
            let mut head = format!("CONNECT {a} HTTP/1.1\r\nHost: {a}\r\n", a = authority);
            if let Some(x) = &basic {
                head += &format!("Proxy-Authorization: Basic {}\r\n", x);
            }
            if let Some(x) = &user_agent {
                head += &format!("User-Agent: {}\r\n", x);
            }
            head += "\r\n";
            if cio.write_all(head.as_bytes()).await.is_err() {
                obs.note = "the endpoint closed before the request was written".into();
            }
            let mut buf: Vec<u8> = Vec::new();
            let mut tmp = [0u8; 16384];
            let mut head_end = None;
            while head_end.is_none() && !obs.ended {
                match tokio::time::timeout(step, cio.read(&mut tmp)).await {
                    Ok(Ok(0)) | Ok(Err(_)) => obs.ended = true,
                    Ok(Ok(n)) => buf.extend_from_slice(&tmp[..n]),
                    Err(_) => {
                        obs.note = format!("no response head within {:?}", step);
                        break;
                    }
                }
                head_end = buf.windows(4).position(|w| w == b"\r\n\r\n").map(|p| p + 4);
            }
            if let Some(he) = head_end {
                let head_text = String::from_utf8_lossy(&buf[..he]).to_string();
                obs.status = head_text.split(' ').nth(1).and_then(|x| x.parse().ok());
                for line in head_text.split("\r\n").skip(1) {
                    if let Some((n, v)) = line.split_once(':') {
                        response_header(&mut obs, n.trim(), v.trim());
                    }
                }
                if obs.status == Some(200) && !relay {
                    if let Some(sess) = session {
                        sess.drive(&mut obs, Up::H1(&mut cio)).await;
                    }
                }
                if obs.status == Some(200) && relay {
                    let _ = cio.write_all(&upload).await;
                    let _ = cio.flush().await;
                    while !obs.ended {
                        match tokio::time::timeout(step, cio.read(&mut tmp)).await {
                            Ok(Ok(0)) | Ok(Err(_)) => obs.ended = true,
                            Ok(Ok(n)) => buf.extend_from_slice(&tmp[..n]),
                            Err(_) => {
                                obs.note = "the tunnel did not end within 15 s of the destination's end of stream".into();
                                break;
                            }
                        }
                    }
                    obs.down = buf[he..].to_vec();
                }
            }
            drop(cio);
        }
        VProto::Http2 => {
            let r: Result<(), String> = async {
                let (mut send, conn) = tokio::time::timeout(step, h2::client::handshake(cio)).await.map_err(|_| "h2 handshake timed out".to_string())?.map_err(|e| e.to_string())?;
                let conn_task = tokio::spawn(async move {
                    let _ = conn.await;
                });
                let mut rb = http::Request::builder().method("CONNECT").uri(authority.as_str());
                if let Some(x) = &basic {
                    rb = rb.header("proxy-authorization", format!("Basic {}", x));
                }
                if let Some(x) = &user_agent {
                    rb = rb.header("user-agent", x.as_str());
                }
                let req = rb.body(()).map_err(|e| format!("request: {}", e))?;
                std::future::poll_fn(|cx| send.poll_ready(cx)).await.map_err(|e| e.to_string())?;
                let (resp, mut up) = send.send_request(req, false).map_err(|e| e.to_string())?;
                let resp = tokio::time::timeout(step, resp).await.map_err(|_| format!("no response within {:?}", step))?.map_err(|e| format!("response: {}", e))?;
                obs.status = Some(resp.status().as_u16());
                for (n, v) in resp.headers() {
                    response_header(&mut obs, n.as_str(), &String::from_utf8_lossy(v.as_bytes()));
                }
                if resp.status() == 200 && !relay {
                    if let Some(sess) = session {
                        sess.drive(&mut obs, Up::H2(&mut up)).await;
                    }
                }
                if resp.status() == 200 && relay {
                    if !upload.is_empty() {
                        up.send_data(Bytes::from(upload.clone()), false).map_err(|e| e.to_string())?;
                    }
                    let mut body = resp.into_body();
                    loop {
                        match tokio::time::timeout(step, body.data()).await {
                            Ok(Some(Ok(ch))) => {
                                let _ = body.flow_control().release_capacity(ch.len());
                                obs.down.extend_from_slice(&ch);
                            }
                            Ok(Some(Err(e))) => {
                                obs.note = format!("the stream failed: {}", e);
                                break;
                            }
                            Ok(None) => {
                                obs.ended = true;
                                break;
                            }
                            Err(_) => {
                                obs.note = "the stream did not end within 15 s of the destination's end of stream".into();
                                break;
                            }
                        }
                    }
                    let _ = up.send_data(Bytes::new(), true);
                }
                drop(send);
                tokio::time::sleep(Duration::from_millis(1)).await;
                conn_task.abort();
                Ok(())
            }
            .await;
            if let Err(e) = r {
                obs.note = e;
            }
        }
    }
    let mut task = task;
    if tokio::time::timeout(Duration::from_secs(3), &mut task).await.is_err() {
        task.abort();
    }
    obs
}

/// the headers of the response the specification speaks about
fn response_header(obs: &mut TunObs, name: &str, value: &str) {
    if name.eq_ignore_ascii_case("x-warning") {
        obs.warn = value.split(|c: char| !c.is_ascii_digit()).next().and_then(|x| x.parse().ok()).unwrap_or(999);
    } else if name.eq_ignore_ascii_case("proxy-authenticate") {
        obs.challenge = value.to_ascii_lowercase().starts_with("basic");
    }
}

/// how the HTTP request names the destination, when it can
fn authority_of(d: &DestRow) -> Option<String> {
    if d.cmd == 3 {
        return Some("_udp2".to_string());
    }
    if d.kind == "ip" {
        return Some(SocketAddr::new(ip_of(&d.addr), d.port).to_string());
    }
    if d.addr.is_empty() || !d.addr.iter().all(|c| c.is_ascii_alphanumeric() || *c == b'-' || *c == b'.') {
        return None;
    }
    Some(format!("{}:{}", text(&d.addr), d.port))
}

fn tunnel_level(rt: &tokio::runtime::Runtime, behs: &[Beh], relay: &std::net::UdpSocket, rep: &mut Report) {
    let relay_port = relay.local_addr().unwrap().port();
    let listener = std::net::TcpListener::bind("127.0.0.1:0").expect("listener");
    let addr = listener.local_addr().unwrap();
    let (job_tx, job_rx) = std::sync::mpsc::channel::<Serve>();
    let (done_tx, done_rx) = std::sync::mpsc::channel::<Served>();
    let (ready_tx, ready_rx) = std::sync::mpsc::channel::<usize>();
    let cancel = Arc::new(std::sync::atomic::AtomicBool::new(false));
    {
        let cancel = cancel.clone();
        std::thread::spawn(move || scripted_socks_server(listener, job_rx, done_tx, cancel, ready_tx));
    }
    let stale_total = std::cell::Cell::new(0usize);
    // without an authenticator the credentials of a request go to the SOCKS5 server unchecked;
    // SNI credentials are only taken from a connection an authenticator has accepted
    // an upstream that does not take the connection: nothing listens on tcpmux, and no other process can take the port
    let closed: SocketAddr = "127.0.0.1:1".parse().unwrap();
    // (the silent upstream: the establishment timer of these cores is short; real time)
    let establish = std::cell::Cell::new(Duration::from_secs(30));
    let mk = |addr: SocketAddr, extended: bool, accept_all: bool| -> &'static Core {
        let settings = Settings::builder()
            .listen_address("127.0.0.1:1").unwrap()
            .listen_protocols(ListenProtocolSettings {
                http1: Some(Http1Settings::builder().build()),
                http2: Some(Http2Settings::builder().build()),
                quic: None,
            })
            .forwarder_settings(ForwardProtocolSettings::Socks5(
                Socks5ForwarderSettings::builder().server_address(addr).unwrap().extended_auth(extended).build().expect("socks settings"),
            ))
            .allow_private_network_connections(true)
            .connection_establishment_timeout(establish.get())
            .build().expect("settings");
        let authenticator: Option<Arc<dyn Authenticator>> = if accept_all { Some(Arc::new(AcceptAll)) } else { None };
        Box::leak(Box::new(Core::new(settings, authenticator, tunnel_env::hosts_settings(), Shutdown::new()).expect("core")))
    };
    let _g = rt.enter();
    let cores = [[mk(addr, false, false), mk(addr, false, true)], [mk(addr, true, false), mk(addr, true, true)]];
    let cores_refused = [[mk(closed, false, false), mk(closed, false, true)], [mk(closed, true, false), mk(closed, true, true)]];
    establish.set(Duration::from_millis(150));
    let cores_silent = [[mk(addr, false, false), mk(addr, false, true)], [mk(addr, true, false), mk(addr, true, true)]];
    tunnel::set_forwarder(None);

    let mut n = 0u64;
    let mut n_flows = 0u64;
    let mut n_relayed = 0u64;
    let mut skipped = 0u64;
    let mut too_long = 0u64;
    let mut seen = BTreeSet::new();
    for b in behs {
        if !b.tun || !b.chunks.is_empty() || b.preload {
            continue;
        }
        // what HTTP can carry: a destination that is an authority, no User-Agent that is not text
        let Some(mut authority) = authority_of(b.dest) else { skipped += 1; continue };
        if b.dest.cmd == 3 && b.mux == "icmp" {
            authority = "_icmp".to_string();
        }
        if b.auth.ext == "e4ua" {
            skipped += 1;
            continue;
        }
        if !seen.insert(b.ident()) {
            continue;
        }
        let class = b.class();
        let bnd = b.v["scn"]["bnd"].as_str().unwrap_or("?").to_string();
        let p = b.auth.params();
        let (basic, sni) = match &p.creds {
            Creds::None => (None, None),
            Creds::Basic(x) => (Some(x.clone()), None),
            Creds::Sni(x) => (None, Some(x.clone())),
        };
        let core = (if b.refuse { &cores_refused } else if b.silent { &cores_silent } else { &cores })[if p.extended { 1 } else { 0 }][if sni.is_some() { 1 } else { 0 }];
        // a UDP multiplexer request only talks to the SOCKS5 server when there are credentials to check
        let udp = b.dest.wild_port;
        let probed = b.v["probed"].as_bool().unwrap_or(true);
        if udp && basic.is_none() && sni.is_none() && (probed || b.flows.is_empty()) {
            skipped += 1;
            continue;
        }
        let expect_ok = b.accept.len() == 1 && (b.accept.contains("Established") || (udp && b.accept.contains("UdpAssociated") && b.mux == "udp"));
        let (want, wild) = if probed || !udp { b.expected_at_server() } else { (Vec::new(), None) };
        let stream = b.stream_for(relay_port);
        for proto in [VProto::Http1, VProto::Http2] {
            let pname = if proto == VProto::Http1 { "h1" } else { "h2" };
            // the HTTP/1.1 codec takes request heads of up to 1024 octets (http1_codec::MAX_RAW_HEADERS_SIZE):
            // longer credentials only come over HTTP/2
            if proto == VProto::Http1 && basic.as_ref().map(|x| x.len()).unwrap_or(0) + 2 * authority.len() > 900 {
                too_long += 1;
                continue;
            }
            n += 1;
            rep.eval();
            rep.nontrivial(format!("tun|{}|{}", pname, b.ident()));
            logcap::set_scenario(&format!("tunnel {} {}", pname, class));
            if n % 211 == 5 {
                rep.sample(json!({"level": "tunnel", "proto": pname, "scn": b.v["scn"], "authority": authority, "expect_ok": expect_ok, "down": b.down.len(), "upload": b.upload.len()}));
            }
            // connections left over from an earlier scenario are not this one's
            cancel.store(false, Ordering::SeqCst);
            if !b.refuse && (probed || !udp) {
                // (a silent upstream keeps the connection open once it has the client's messages)
                job_tx.send(Serve { script: stream.clone(), want_len: want.len(), detach: b.silent }).expect("server thread");
                stale_total.set(stale_total.get() + ready_rx.recv_timeout(Duration::from_secs(30)).expect("the scripted server takes the job"));
            }
            // the datagrams the client sends once a UDP multiplexer request is accepted, each with the scripted
            // server's part in the handshake the specification says it opens
            let session = if b.flows.is_empty() { None } else {
                Some(Session {
                    flows: b.flows.iter().map(|f| (f.record.clone(), if f.opens { Some((patch_port(&f.stream, f.relay_port_at, relay_port), b.messages(&f.emit).0.len())) } else { None })).collect(),
                    job_tx: &job_tx, done_rx: &done_rx, cancel: &cancel, probed, relay, ready_rx: &ready_rx, stale: &stale_total,
                })
            };
            let detail = |obs: Value| json!({"kind": "tunnel", "proto": pname, "scn": b.v["scn"], "authority": authority, "stream": short_hex(&b.stream), "x": String::from_utf8_lossy(&b.auth.x),
                                             "expected": {"emit": b.emit, "accept": b.v["accept"], "down": short_hex(&b.down), "upload": b.upload.len()}, "observed": obs});
            let peer = SocketAddr::new(p.client_address, 40000);
            let t0 = std::time::Instant::now();
            let res = guarded(format!("socks5:tun-hang:{}", class), "the tunnel did not return", detail(json!(null)), || {
                rt.block_on(tunnel_request(core, proto, peer, p.tls_domain.clone(), sni.clone(), authority.clone(), basic.clone(), b.upload.clone(), !udp, session.as_ref(),
                                           // the establishment timer of the silent scenarios is 150 ms; the answer is waited for generously
                                           if b.silent { Duration::from_secs(6) } else { STEP }, p.user_agent.clone()))
            });
            cancel.store(true, Ordering::SeqCst);
            let t1 = t0.elapsed();
            let mut res = res;
            let served = match res.as_mut().ok().and_then(|o| o.probe_served.take()) {
                Some(s) => Ok(s),
                None if b.refuse || (udp && !probed) => Ok(Served { clean: true, ..Default::default() }),
                None => done_rx.recv_timeout(Duration::from_secs(30)),
            };
            if std::env::var_os("C15_TIMES").is_some() && t0.elapsed() > Duration::from_millis(10) {
                eprintln!("slow {:?}/{:?} {} {} {:?}", t1, t0.elapsed(), pname, class, res.as_ref().map(|o| (o.status, o.ended, o.note.clone())));
            }
            let obs = match res {
                Err(pn) => {
                    rep.violation_with(format!("socks5:tun-panic:{}", class), format!("the endpoint panicked: {}", pn), || detail(json!({"panic": pn})));
                    continue;
                }
                Ok(o) => o,
            };
            let Ok(served) = served else {
                rep.note(format!("tunnel level: the scripted server did not report for {}", class));
                continue;
            };
            let o = json!({"status": obs.status, "warn": obs.warn, "challenge": obs.challenge, "down": short_hex(&obs.down), "ended": obs.ended, "note": obs.note,
                           "server": {"connected": served.connected, "received": short_hex(&served.got), "clean": served.clean, "timed_out": served.timed_out}});
            // (a dialogue the establishment timer ends may be cut before the endpoint has said all it says in the specification's dialogue)
            let cut_short = b.silent && served.got.len() < want.len() && same_written(&served.got, &want[..served.got.len()], wild.map(|w| (w.0.min(served.got.len()), w.1.min(served.got.len()))));
            if served.clean && !cut_short && !same_written(&served.got, &want, wild) {
                let msgs = want.len() - if expect_ok && !udp { b.upload.len() } else { 0 };
                let what = if expect_ok && !udp && served.got.len() >= msgs && same_written(&served.got[..msgs], &want[..msgs], wild) { "tun-up" } else { "tun-emit" };
                rep.violation_with(format!("socks5:{}:{}", what, class),
                    format!("the SOCKS5 server received {} ; the specification's messages {:?}{} are {}", short_hex(&served.got), b.emit,
                            if expect_ok && !b.upload.is_empty() { format!(" and the {} uploaded octets", b.upload.len()) } else { String::new() }, short_hex(&want)),
                    || detail(o.clone()));
                continue;
            }
            match obs.status {
                None => {
                    rep.violation_with(format!("socks5:tun-noresponse:{}", class), format!("the request was not answered ({})", obs.note), || detail(o.clone()));
                    continue;
                }
                Some(st) if (st == 200) != expect_ok => {
                    rep.violation_with(format!("socks5:tun-result:{}", class),
                        format!("the request was answered {} ; the specification accepts {:?}", st, b.accept_req), || detail(o.clone()));
                    continue;
                }
                // the response the specification's table gives for the class the dialogue ends in (C10)
                Some(st) if !b.http.is_empty() && !b.http.contains(&(st, obs.warn, obs.challenge)) => {
                    rep.violation_with(format!("socks5:tun-response:{}:got{}-{}", class, st, obs.warn),
                        format!("the request was answered {} with X-Warning code {} {} a Basic challenge; the specification accepts (status, X-Warning code, challenge) {:?} for a request that ends as {:?}",
                                st, obs.warn, if obs.challenge { "and" } else { "without" }, b.http, b.accept_req), || detail(o.clone()));
                    continue;
                }
                _ => {}
            }
            // every handshake the forwarder makes for the client's flows says the session's credentials as the request's own did
            for (fi, f) in b.flows.iter().enumerate() {
                if !f.opens {
                    continue;
                }
                rep.eval();
                let (fwant, fwild) = b.messages(&f.emit);
                let fdetail = |fs: Value| json!({"kind": "tunnel-flow", "proto": pname, "scn": b.v["scn"], "flow": fi, "x": String::from_utf8_lossy(&b.auth.x),
                                                 "expected": {"emit": f.emit, "octets": short_hex(&fwant)}, "observed": fs, "request": o.clone()});
                match obs.flow_served.get(fi).and_then(|x| x.as_ref()) {
                    Some(fs) if fs.connected => {
                        if !same_written(&fs.got, &fwant, fwild) {
                            rep.violation_with(format!("socks5:tun-flow-emit:{}", class),
                                format!("for the client's datagram {} the SOCKS5 server received the handshake {} ; the specification's messages {:?} are {}", fi, short_hex(&fs.got), f.emit, short_hex(&fwant)),
                                || fdetail(json!({"received": short_hex(&fs.got), "timed_out": fs.timed_out})));
                        }
                    }
                    _ => {
                        rep.violation_with(format!("socks5:tun-flow-none:{}", class),
                            format!("the client's datagram {} is the first of its source: the specification has the forwarder open an association for it, no handshake reached the SOCKS5 server ({})", fi, obs.note),
                            || fdetail(json!(null)));
                    }
                }
            }
            // ... and the datagram reaches the relay in the RFC 1928 section 7 form, addressed to the flow's destination
            if b.flows.iter().enumerate().all(|(fi, f)| !f.opens || obs.flow_served.get(fi).and_then(|x| x.as_ref()).map(|x| x.connected).unwrap_or(false)) {
                for (fi, f) in b.flows.iter().enumerate() {
                    rep.eval();
                    let got = obs.flow_relayed.get(fi).cloned().flatten();
                    if got.as_deref() != Some(&f.relayed[..]) {
                        rep.violation_with(format!("socks5:tun-flow-relay:{}", class),
                            format!("the client's datagram {} reached the relay as {} ; the specification: {}", fi, got.as_deref().map(short_hex).unwrap_or_else(|| "nothing".into()), short_hex(&f.relayed)),
                            || json!({"kind": "tunnel-flow", "proto": pname, "scn": b.v["scn"], "flow": fi, "expected": short_hex(&f.relayed), "observed": got.as_deref().map(short_hex), "request": o.clone()}));
                        break;
                    }
                    n_relayed += 1;
                }
            }
            n_flows += b.flows.iter().filter(|f| f.opens).count() as u64;
            if expect_ok && !udp {
                if obs.down != b.down {
                    rep.violation_with(format!("socks5:tun-down:{}:bnd-{}", class, bnd),
                        format!("through the tunnel the client received {} octets {} ; the destination sent {} octets {}", obs.down.len(), short_hex(&obs.down), b.down.len(), short_hex(&b.down)),
                        || detail(o.clone()));
                } else if !obs.ended {
                    rep.violation_with(format!("socks5:tun-noend:{}:bnd-{}", class, bnd),
                        format!("the destination's end of stream did not reach the client ({})", obs.note), || detail(o.clone()));
                }
            }
        }
    }
    if stale_total.get() > 0 {
        rep.note(format!("tunnel level: {} connection(s) left over from an earlier scenario were dropped by the scripted server", stale_total.get()));
    }
    rep.count("tunnel_level_requests", n);
    rep.count("tunnel_level_flow_handshakes", n_flows);
    rep.count("tunnel_level_flow_datagrams_relayed", n_relayed);
    rep.count("tunnel_level_not_expressible", skipped);
    rep.count("tunnel_level_too_long_for_http1", too_long);
}

/// Upload through the sink and end it, then read the source to its end. Returns what was read
/// and the first error.
async fn relay_through(src: &mut SourceOut, snk: &mut SinkOut, upload: &[u8]) -> (Vec<u8>, Option<String>) {
    let mut down = Vec::new();
    let up = async {
        let mut rest = Bytes::copy_from_slice(upload);
        while !rest.is_empty() {
            snk.wait_writable().await.map_err(|e| format!("wait_writable: {}", e))?;
            rest = snk.write(rest).map_err(|e| format!("write: {}", e))?;
        }
        snk.flush().await.map_err(|e| format!("flush: {}", e))?;
        snk.eof().map_err(|e| format!("eof: {}", e))?;
        snk.flush().await.map_err(|e| format!("flush after eof: {}", e))?;
        Ok::<(), String>(())
    }
    .await;
    if let Err(e) = up {
        return (down, Some(e));
    }
    loop {
        match src.read().await {
            Ok(VData::Chunk(c)) => {
                down.extend_from_slice(&c);
                if let Err(e) = src.consume(c.len()) {
                    return (down, Some(format!("consume: {}", e)));
                }
            }
            Ok(VData::Eof) => return (down, None),
            Err(e) => return (down, Some(format!("read: {}", e))),
        }
    }
}

// ---------------------------------------------------------------------------------------
// UDP header vectors through a real association and a loopback relay

#[allow(clippy::too_many_arguments)]
fn udp_vectors(rt: &tokio::runtime::Runtime, assoc: &Association<ScriptIo>, relay: &std::net::UdpSocket, vectors: &str,
               wrap_tag: &str, unwrap_tag: &str, sig_prefix: &str, rep: &mut Report) {
    let local = assoc.local_addr().expect("association socket");
    let to = SocketAddr::new(IpAddr::V4(Ipv4Addr::LOCALHOST), local.port());
    // drain anything left in the relay socket
    relay.set_nonblocking(true).unwrap();
    let mut scratch = vec![0u8; 70000];
    while relay.recv(&mut scratch).is_ok() {}
    relay.set_nonblocking(false).unwrap();

    let mut nw = 0u64;
    for v in read_tagged(vectors, wrap_tag) {
        nw += 1;
        rep.eval();
        let ip = ip_of(&bytes_of(&v["ip"]));
        let port = v["port"].as_u64().unwrap() as u16;
        let data = bytes_of(&v["data"]);
        let want = bytes_of(&v["bytes"]);
        let fam = if ip.is_ipv4() { "v4" } else { "v6" };
        rep.nontrivial(format!("udpw|{}|{}|{}", ip, port, data.len()));
        let detail = json!({"kind": "udp-wrap", "dest": format!("{}:{}", ip, port), "data_len": data.len(), "expected": short_hex(&want)});
        let r = guarded(format!("{}:wrap-hang:{}", sig_prefix, fam), "send_to did not return", detail.clone(),
                        || rt.block_on(async { tokio::time::timeout(Duration::from_secs(5), assoc.send_to(&data, SocketAddr::new(ip, port))).await }));
        match r {
            Err(p) => rep.violation(format!("{}:wrap-panic:{}", sig_prefix, fam), format!("send_to panicked: {}", p), detail),
            Ok(Err(_)) | Ok(Ok(Err(_))) => rep.violation(format!("{}:wrap-error:{}", sig_prefix, fam), format!("send_to failed: {:?}", r), detail),
            Ok(Ok(Ok(()))) => match relay.recv(&mut scratch) {
                Err(e) => rep.note(format!("udp relay did not receive a datagram ({}): vector skipped", e)),
                Ok(n) => {
                    if scratch[..n] != want[..] {
                        let mut d = detail;
                        d["observed"] = json!(short_hex(&scratch[..n]));
                        rep.violation(format!("{}:wrap:{}", sig_prefix, fam), "relayed datagram header differs from RFC 1928 section 7 as evaluated by TLC", d);
                    }
                }
            },
        }
    }
    rep.count("udp_wrap_vectors", nw);

    let mut nu = 0u64;
    for v in read_tagged(vectors, unwrap_tag) {
        nu += 1;
        rep.eval();
        let bytes = bytes_of(&v["bytes"]);
        let ok = v["ok"].as_bool().unwrap();
        let class = format!("{}:{}", if ok { "valid" } else { "invalid" },
                            if bytes.len() < 10 { "short" } else if bytes.len() < 22 { "mid" } else { "long" });
        if !ok {
            rep.nontrivial(format!("udpu|{}", hex(&bytes[..bytes.len().min(24)])));
        }
        let detail = json!({"kind": "udp-unwrap", "bytes": short_hex(&bytes), "expected": {"ok": ok, "ip": v["ip"], "port": v["port"], "data_len": v["data"].as_array().map(|a| a.len())}});
        if relay.send_to(&bytes, to).is_err() {
            rep.note("udp relay could not send: vector skipped");
            continue;
        }
        let mark = meter_mark();
        let r = guarded(format!("{}:unwrap-hang:{}", sig_prefix, class), "recv_from did not return", detail.clone(),
                        || rt.block_on(async { tokio::time::timeout(Duration::from_secs(5), assoc.recv_from(2048)).await }));
        let peak = meter_peak_above(mark);
        let mut d = detail;
        match r {
            Err(p) => rep.violation(format!("{}:unwrap-panic:{}", sig_prefix, class), format!("recv_from panicked: {}", p), d),
            Ok(Err(_)) => rep.note("the datagram did not arrive within 5 s: vector skipped"),
            Ok(Ok(res)) => {
                let good = match (&res, ok) {
                    (Ok((n, peer, data)), true) => {
                        let want = bytes_of(&v["data"]);
                        *n == want.len() && *data == want && peer.ip() == ip_of(&bytes_of(&v["ip"])) && peer.port() as u64 == v["port"].as_u64().unwrap()
                    }
                    (Err(ErrView::Protocol(_)), false) => true,
                    _ => false,
                };
                if !good {
                    d["observed"] = json!(format!("{:?}", res).chars().take(300).collect::<String>());
                    rep.violation(format!("{}:unwrap:{}", sig_prefix, class), "relayed datagram parsed differently from RFC 1928 section 7 as evaluated by TLC", d);
                } else if peak > 2048 + 22 + 64 * 1024 {
                    d["peak_bytes"] = json!(peak);
                    rep.violation(format!("{}:unwrap-buffer:{}", sig_prefix, class), "recv_from held more memory than its buffer bound", d);
                }
            }
        }
    }
    rep.count("udp_unwrap_vectors", nu);
}

// ---------------------------------------------------------------------------------------
// C09: totality of the reply reader and of the relayed-datagram parser

fn run_reply(bytes: &[u8], chunks: &[usize]) -> (Option<Result<socks::ReplyView, ErrView>>, usize) {
    let wire = Arc::new(Mutex::new(Wire::default()));
    let mut io = ScriptIo(wire.clone());
    let mut fut = Box::pin(socks::read_reply(&mut io));
    let waker = futures::task::noop_waker();
    let mut cx = Context::from_waker(&waker);
    let events = events_of(chunks, bytes.len());
    let mut pos = 0;
    let mut res = None;
    let mut it = events.iter();
    loop {
        // poll to quiescence
        let mut last = (usize::MAX, usize::MAX);
        for _ in 0..64 {
            match Future::poll(fut.as_mut(), &mut cx) {
                Poll::Ready(r) => {
                    res = Some(r);
                    break;
                }
                Poll::Pending => {
                    let w = wire.lock().unwrap();
                    let snap = (w.consumed, w.inbuf.len());
                    if snap == last {
                        break;
                    }
                    last = snap;
                }
            }
        }
        if res.is_some() {
            break;
        }
        let Some(ev) = it.next() else { break };
        let mut w = wire.lock().unwrap();
        match ev {
            Ev::Deliver(n) => {
                w.inbuf.extend(bytes[pos..pos + n].iter().copied());
                pos += n;
            }
            Ev::Eof => w.eof = true,
        }
    }
    drop(fut);
    let used = wire.lock().unwrap().consumed;
    (res, used)
}

fn totality(rt: &tokio::runtime::Runtime, vectors: &str, out_path: &str) -> ! {
    let mut rep = Report::new("c15-totality");
    let thorough = tier_thorough();
    let totr = read_tagged(vectors, "TOTR");
    if totr.is_empty() {
        panic!("no TOTR vectors in {}", vectors);
    }
    for v in &totr {
        let bytes = bytes_of(&v["bytes"]);
        let st = v["st"].as_str().unwrap();
        let used = v["used"].as_u64().unwrap() as usize;
        let class = format!("{}:{}", st, match bytes.get(3) { Some(1) => "v4", Some(4) => "v6", Some(3) => "name", Some(_) => "other", None => "short" });
        if st != "ok" {
            rep.nontrivial(format!("r|{}", hex(&bytes[..bytes.len().min(16)])));
        }
        let n = bytes.len();
        let mut chunkings: Vec<Vec<usize>> = vec![vec![]];
        if n <= 32 || thorough {
            for a in 1..n.min(40) {
                chunkings.push(vec![a]);
            }
        }
        if n > 1 && n <= 64 {
            chunkings.push(vec![1; n - 1]);
        }
        for ch in &chunkings {
            rep.eval();
            let detail = json!({"kind": "reply", "bytes": short_hex(&bytes), "chunks": ch, "expected": {"st": st, "used": used, "code": v["code"], "kind": v["kind"], "addr_len": v["addr"].as_array().map(|a| a.len()), "port": v["port"]}});
            let mark = meter_mark();
            let r = guarded(format!("c09:socks5:reply:hang:{}", class), "the reply reader did not return", detail.clone(), || run_reply(&bytes, ch));
            let peak = meter_peak_above(mark);
            let mut d = detail;
            match r {
                Err(p) => rep.violation(format!("c09:socks5:reply:panic:{}", class), format!("the reply reader panicked: {}", p), d),
                Ok((None, u)) => {
                    d["observed"] = json!({"used": u});
                    rep.violation(format!("c09:socks5:reply:stall:{}", class), "the reply reader is still waiting after the end of the stream", d)
                }
                Ok((Some(res), u)) => {
                    let good = match (&res, st) {
                        // the bound address of a failure reply means nothing: only its code is compared
                        (Ok(view), "ok") => view.code as i64 == v["code"].as_i64().unwrap() && (view.code != 0 || (view.kind == v["kind"].as_str().unwrap()
                            && view.addr == bytes_of(&v["addr"]) && view.port as u64 == v["port"].as_u64().unwrap())),
                        (Ok(view), _) => v["failAlso"].as_bool().unwrap() && view.code as i64 == v["code"].as_i64().unwrap(),
                        (Err(ErrView::Io(k, _)), "short") => *k == std::io::ErrorKind::UnexpectedEof,
                        (Err(ErrView::Protocol(_)), "bad") => true,
                        _ => false,
                    };
                    let used_matters = st == "ok" && v["code"].as_i64() == Some(0);
                    if !good || (used_matters && u != used) {
                        d["observed"] = json!({"result": format!("{:?}", res).chars().take(300).collect::<String>(), "used": u});
                        rep.violation(format!("c09:socks5:reply:verdict:{}", class), "the reply reader's verdict differs from the RFC 1928 grammar as evaluated by TLC", d);
                    } else if peak > 64 * 1024 {
                        d["peak_bytes"] = json!(peak);
                        rep.violation(format!("c09:socks5:reply:buffer:{}", class), "the reply reader buffered more than 64 KiB for a reply of at most 262 octets", d);
                    }
                }
            }
        }
    }
    rep.count("reply_vectors", totr.len() as u64);

    // relayed datagrams: an association is needed; establish one against a scripted server
    let relay = std::net::UdpSocket::bind("127.0.0.1:0").expect("relay socket");
    relay.set_read_timeout(Some(Duration::from_secs(5))).unwrap();
    let rp = relay.local_addr().unwrap().port().to_be_bytes();
    let params = AuthParams { creds: Creds::None, extended: false, tls_domain: "vpn.example".into(),
                              client_address: IpAddr::V4(Ipv4Addr::new(203, 0, 113, 7)), user_agent: None };
    // a plain successful association: 05 00 | 05 00 00 01 127.0.0.1 port
    let stream = [5u8, 0, 5, 0, 0, 1, 127, 0, 0, 1, rp[0], rp[1]];
    let run = run_dialogue(&params, &Target::UdpAssociate, &stream, &[Ev::Deliver(stream.len())], false);
    match run.outcome {
        Some(Outcome::Udp(assoc)) => udp_vectors(rt, &assoc, &relay, vectors, "NONE", "TOTU", "c09:socks5:udp", &mut rep),
        o => rep.note(format!("could not establish a UDP association against the scripted server ({}): datagram vectors not executed", o.as_ref().map(describe).unwrap_or_default())),
    }
    rep.finish(out_path)
}
