//! C06 / C07 over HTTP/3: the UDP multiplexer (CONNECT _udp2) of a listening endpoint, driven by the quiche client with
//! the REAL direct UDP forwarder and loopback echo servers. The client's record stream is cut into QUIC stream writes the
//! way DgramReader.tla's segmentations say (units of records per chunk); three records on two flows. The statement of C07 /
//! C06 is the oracle: every datagram reaches exactly its destination, one outbound socket per (source, destination) pair,
//! every reply comes back labelled with the flow's destination as source and its source as destination, payloads intact.

#[path = "../h3client.rs"]
mod h3client;
#[path = "../h3env.rs"]
mod h3env;

use h3client::*;
use h3env::*;
use serde_json::{json, Value};
use std::collections::BTreeSet;
use std::net::{SocketAddr, UdpSocket};
use std::sync::{Arc, Mutex};
use std::time::{Duration, Instant};
use trusttunnel::verif::tunnel::set_forwarder;
use ttv::*;

/// an echo server: records (source port of the sender, payload) and answers with the payload reversed
fn echo_server() -> (u16, Arc<Mutex<Vec<(u16, Vec<u8>)>>>) {
    let s = UdpSocket::bind("127.0.0.1:0").unwrap();
    let port = s.local_addr().unwrap().port();
    let log: Arc<Mutex<Vec<(u16, Vec<u8>)>>> = Default::default();
    let l2 = log.clone();
    std::thread::spawn(move || {
        let _ = s.set_read_timeout(Some(Duration::from_secs(30)));
        let mut b = vec![0u8; 70000];
        while let Ok((n, from)) = s.recv_from(&mut b) {
            l2.lock().unwrap().push((from.port(), b[..n].to_vec()));
            let mut r = b[..n].to_vec();
            r.reverse();
            let _ = s.send_to(&r, from);
        }
    });
    (port, log)
}

fn ip16(v4: [u8; 4]) -> [u8; 16] {
    let mut a = [0u8; 16];
    a[12..].copy_from_slice(&v4);
    a
}

/// client -> endpoint record
fn record_in(src: ([u8; 4], u16), dst: ([u8; 4], u16), app: &str, payload: &[u8]) -> Vec<u8> {
    let mut b = vec![];
    b.extend_from_slice(&((36 + 1 + app.len() + payload.len()) as u32).to_be_bytes());
    b.extend_from_slice(&ip16(src.0));
    b.extend_from_slice(&src.1.to_be_bytes());
    b.extend_from_slice(&ip16(dst.0));
    b.extend_from_slice(&dst.1.to_be_bytes());
    b.push(app.len() as u8);
    b.extend_from_slice(app.as_bytes());
    b.extend_from_slice(payload);
    b
}

/// endpoint -> client records out of the stream's bytes: (source, destination, payload); Err on a malformed stream
fn parse_out(mut b: &[u8]) -> Result<Vec<(([u8; 16], u16), ([u8; 16], u16), Vec<u8>)>, String> {
    let mut out = vec![];
    while !b.is_empty() {
        if b.len() < 4 { return Err(format!("{} stray octets at the end of the reply stream", b.len())); }
        let l = u32::from_be_bytes([b[0], b[1], b[2], b[3]]) as usize;
        if l < 36 || b.len() < 4 + l { return Err(format!("a reply record declares {} octets, {} are there", l, b.len() - 4)); }
        let r = &b[4..4 + l];
        let mut s = [0u8; 16]; s.copy_from_slice(&r[..16]);
        let mut d = [0u8; 16]; d.copy_from_slice(&r[18..34]);
        out.push(((s, u16::from_be_bytes([r[16], r[17]])), (d, u16::from_be_bytes([r[34], r[35]])), r[36..].to_vec()));
        b = &b[4 + l..];
    }
    Ok(out)
}

fn run(server: SocketAddr, n: u32, seg: &[usize], cut: usize) -> Result<Vec<String>, String> {
    let to = Duration::from_secs(10);
    let (p1, log1) = echo_server();
    let (p2, log2) = echo_server();
    let mut c = H3Conn::connect(server, &ClientOpts { src_ip: source_ip(n), ..Default::default() }).map_err(|e| format!("handshake: {:?}", e))?;
    c.body_keep = 1 << 20;
    let sid = c.request(&request_headers("CONNECT", "_udp2", &[("user-agent", b"verif-harness")]), false)?;
    if !c.run_until(to, |c| c.streams.get(&sid).map(|s| !s.heads.is_empty() || s.ended()).unwrap_or(false)) || c.stream(sid).status(0) != 200 {
        return Err(format!("CONNECT _udp2 not answered 200 (status {})", c.stream(sid).status(0)));
    }
    // a destination written as an IPv4-mapped IPv6 address is a destination like any other: the datagram reaches the host
    // behind it and the reply comes back labelled with the very address the client wrote (every other scenario)
    if n % 2 == 0 {
        let (pm, logm) = echo_server();
        let mut mapped = [0u8; 16]; mapped[10] = 0xff; mapped[11] = 0xff; mapped[12..].copy_from_slice(&[127, 0, 0, 1]);
        let mut rec = vec![];
        let payload = b"to a mapped destination";
        rec.extend_from_slice(&((36 + 1 + payload.len()) as u32).to_be_bytes());
        rec.extend_from_slice(&ip16([10, 0, 0, 3])); rec.extend_from_slice(&4003u16.to_be_bytes());
        rec.extend_from_slice(&mapped); rec.extend_from_slice(&pm.to_be_bytes());
        rec.push(0); rec.extend_from_slice(payload);
        c.send_data(sid, &rec, false, Duration::from_secs(5))?;
        c.run_until(Duration::from_secs(3), |c| parse_out(&c.streams[&sid].body).map(|r| !r.is_empty()).unwrap_or(false));
        let got = parse_out(&c.stream(sid).body).unwrap_or_default();
        let mut rev = payload.to_vec(); rev.reverse();
        if logm.lock().unwrap().len() != 1 {
            return Ok(vec![format!("destination [::ffff:127.0.0.1]:{} received {} datagram(s), the client sent it 1", pm, logm.lock().unwrap().len())]);
        }
        if got.len() != 1 || got[0].0 != (mapped, pm) || got[0].1 != (ip16([10, 0, 0, 3]), 4003) || got[0].2 != rev {
            return Ok(vec![format!("the reply of the flow to [::ffff:127.0.0.1]:{} came back as {:?}, expected one record labelled with that address as source", pm, got.iter().map(|r| (r.0 .0, r.0 .1, r.2.len())).collect::<Vec<_>>())]);
        }
        // (the stream's earlier octets are not part of what follows)
        c.streams.get_mut(&sid).unwrap().body.clear();
    }
    // three records, two flows (records 0 and 2 share a flow); payloads of different lengths
    let lo = [127u8, 0, 0, 1];
    let flows = [(([10u8, 0, 0, 1], 4001u16), (lo, p1)), (([10u8, 0, 0, 2], 4002u16), (lo, p2))];
    let recs: Vec<(usize, Vec<u8>)> = vec![(0, b"first datagram of flow one".to_vec()), (1, (0..900).map(|i| b'a' + (i % 26) as u8).collect()), (0, b"x".to_vec())];
    let wires: Vec<Vec<u8>> = recs.iter().enumerate().map(|(k, (f, p))| record_in(flows[*f].0, flows[*f].1, if k == 1 { "app.example" } else { "" }, p)).collect();
    // unit u of the stream: first `cut` octets of a record, or its rest (DgramReader.tla: UnitsPerRecord = 2)
    let unit = |u: usize| -> Vec<u8> { let w = &wires[u / 2]; let c = cut.min(w.len() - 1); if u % 2 == 0 { w[..c].to_vec() } else { w[c..].to_vec() } };
    let mut u = 0;
    for k in seg {
        let mut chunk = vec![];
        for _ in 0..*k { if u < 6 { chunk.extend(unit(u)); u += 1; } }
        if chunk.is_empty() { continue; }
        c.send_data(sid, &chunk, false, Duration::from_secs(5))?;
        c.linger(Duration::from_millis(3));
    }
    // replies: three records, any order
    let deadline = Instant::now() + Duration::from_secs(6);
    let mut replies = vec![];
    while Instant::now() < deadline {
        c.linger(Duration::from_millis(10));
        if let Ok(r) = parse_out(&c.stream(sid).body) { if r.len() >= 3 { replies = r; break; } }
        if c.stream(sid).ended() || c.is_closed() { break; }
    }
    let mut problems = vec![];
    let s = c.stream(sid);
    if s.ended() { problems.push(format!("the multiplexer stream ended (finished={} reset={:?})", s.finished, s.reset)); }
    match parse_out(&s.body) {
        Err(e) => problems.push(format!("reply stream: {}", e)),
        Ok(r) => {
            if replies.is_empty() { replies = r; }
        }
    }
    // what the destinations saw
    let (l1, l2) = (log1.lock().unwrap().clone(), log2.lock().unwrap().clone());
    let want1: Vec<Vec<u8>> = vec![recs[0].1.clone(), recs[2].1.clone()];
    let got1: Vec<Vec<u8>> = l1.iter().map(|x| x.1.clone()).collect();
    if got1 != want1 { problems.push(format!("destination 1 received {} datagram(s) {:?}, the client sent it {:?}", got1.len(), got1.iter().map(|p| p.len()).collect::<Vec<_>>(), want1.iter().map(|p| p.len()).collect::<Vec<_>>())); }
    if l2.iter().map(|x| x.1.clone()).collect::<Vec<_>>() != vec![recs[1].1.clone()] { problems.push(format!("destination 2 received {} datagram(s), the client sent it 1 of {} octets", l2.len(), recs[1].1.len())); }
    let ports: BTreeSet<u16> = l1.iter().map(|x| x.0).collect();
    if ports.len() > 1 { problems.push("the two datagrams of one flow left from different sockets".into()); }
    if let (Some(a), Some(b)) = (l1.first(), l2.first()) { if a.0 == b.0 { problems.push("two flows share one outbound socket".into()); } }
    // what came back: labelled with the flow's destination as source and its source as destination
    let mut want: Vec<(([u8; 16], u16), ([u8; 16], u16), Vec<u8>)> = recs.iter().map(|(f, p)| { let mut r = p.clone(); r.reverse(); ((ip16(flows[*f].1 .0), flows[*f].1 .1), (ip16(flows[*f].0 .0), flows[*f].0 .1), r) }).collect();
    let mut got = replies.clone();
    want.sort(); got.sort();
    if got != want && problems.is_empty() {
        problems.push(format!("the client received {} reply record(s) {:?}, expected the 3 replies labelled with their flows", got.len(), got.iter().map(|r| (r.0 .1, r.1 .1, r.2.len())).collect::<Vec<_>>()));
    }
    c.close();
    Ok(problems)
}

/// CONNECT _icmp over HTTP/3 with the real ICMP forwarder on interface lo: echo requests to loopback addresses (the kernel
/// answers); the request records are cut into stream writes by `seg` (units of half records); every request gets exactly its
/// echo reply record (same identifier and sequence number, the pinged address as source, type 0 code 0)
fn run_icmp(server: SocketAddr, n: u32, seg: &[usize]) -> Result<Vec<String>, String> {
    let to = Duration::from_secs(10);
    let mut c = H3Conn::connect(server, &ClientOpts { src_ip: source_ip(n), ..Default::default() }).map_err(|e| format!("handshake: {:?}", e))?;
    c.body_keep = 1 << 16;
    let sid = c.request(&request_headers("CONNECT", "_icmp", &[("user-agent", b"verif-harness")]), false)?;
    if !c.run_until(to, |c| c.streams.get(&sid).map(|s| !s.heads.is_empty() || s.ended()).unwrap_or(false)) || c.stream(sid).status(0) != 200 {
        return Err(format!("CONNECT _icmp not answered 200 (status {})", c.stream(sid).status(0)));
    }
    // three requests: (identifier, destination, sequence number, data size)
    let reqs: Vec<(u16, [u8; 4], u16, u16)> = vec![(0x5100 + n as u16, [127, 0, 0, 1], 1, 8), (0x5200 + n as u16, [127, 0, 0, 9], 7, 56), (0x5100 + n as u16, [127, 0, 0, 1], 2, 0)];
    let wires: Vec<Vec<u8>> = reqs.iter().map(|(id, dst, seq, len)| { let mut b = vec![]; b.extend_from_slice(&id.to_be_bytes()); b.extend_from_slice(&ip16(*dst)); b.extend_from_slice(&seq.to_be_bytes()); b.push(64); b.extend_from_slice(&len.to_be_bytes()); b }).collect();
    let unit = |u: usize| -> Vec<u8> { let w = &wires[u / 2]; if u % 2 == 0 { w[..9].to_vec() } else { w[9..].to_vec() } };
    let mut u = 0;
    for k in seg {
        let mut chunk = vec![];
        for _ in 0..*k { if u < 6 { chunk.extend(unit(u)); u += 1; } }
        if chunk.is_empty() { continue; }
        c.send_data(sid, &chunk, false, Duration::from_secs(5))?;
        c.linger(Duration::from_millis(3));
    }
    let deadline = Instant::now() + Duration::from_secs(5);
    while Instant::now() < deadline && c.stream(sid).body.len() < 66 && !c.stream(sid).ended() && !c.is_closed() {
        c.linger(Duration::from_millis(10));
    }
    c.linger(Duration::from_millis(50));
    let s = c.stream(sid);
    let mut problems = vec![];
    if s.ended() { problems.push(format!("the multiplexer stream ended (finished={} reset={:?})", s.finished, s.reset)); }
    if s.body.len() % 22 != 0 { problems.push(format!("{} octets of replies: not a whole number of 22-octet records", s.body.len())); }
    let mut got: Vec<(u16, [u8; 16], u8, u8, u16)> = s.body.chunks_exact(22).map(|r| { let mut a = [0u8; 16]; a.copy_from_slice(&r[2..18]); (u16::from_be_bytes([r[0], r[1]]), a, r[18], r[19], u16::from_be_bytes([r[20], r[21]])) }).collect();
    let mut want: Vec<(u16, [u8; 16], u8, u8, u16)> = reqs.iter().map(|(id, dst, seq, _)| (*id, ip16(*dst), 0u8, 0u8, *seq)).collect();
    got.sort(); want.sort();
    if got != want && problems.is_empty() {
        problems.push(format!("the client received the reply records {:?}, expected one echo reply per request: {:?}", got.iter().map(|r| (r.0, r.1[15], r.2, r.3, r.4)).collect::<Vec<_>>(), want.iter().map(|r| (r.0, r.1[15], r.2, r.3, r.4)).collect::<Vec<_>>()));
    }
    c.close();
    Ok(problems)
}

/// the configured UDP timeout is the one applied, also when it is shorter than the other timeouts of the settings: a flow
/// idle for longer than it is released, and a later datagram on the same pair starts a fresh flow (a new outbound socket)
fn run_expiry(server: SocketAddr, n: u32, idle: Duration) -> Result<Vec<String>, String> {
    let to = Duration::from_secs(10);
    let (p1, log1) = echo_server();
    let mut c = H3Conn::connect(server, &ClientOpts { src_ip: source_ip(n), ..Default::default() }).map_err(|e| format!("handshake: {:?}", e))?;
    c.body_keep = 1 << 16;
    let sid = c.request(&request_headers("CONNECT", "_udp2", &[("user-agent", b"verif-harness")]), false)?;
    if !c.run_until(to, |c| c.streams.get(&sid).map(|s| !s.heads.is_empty() || s.ended()).unwrap_or(false)) || c.stream(sid).status(0) != 200 {
        return Err(format!("CONNECT _udp2 not answered 200 (status {})", c.stream(sid).status(0)));
    }
    let rec = record_in(([10, 0, 0, 1], 4001), ([127, 0, 0, 1], p1), "", b"before the pause");
    c.send_data(sid, &rec, false, Duration::from_secs(5))?;
    c.run_until(Duration::from_secs(5), |c| parse_out(&c.streams[&sid].body).map(|r| r.len() >= 1).unwrap_or(false));
    // idle; the client keeps its connection alive
    let t0 = Instant::now();
    while t0.elapsed() < idle { c.linger(Duration::from_millis(100)); c.ping(); }
    let rec = record_in(([10, 0, 0, 1], 4001), ([127, 0, 0, 1], p1), "", b"after the pause");
    c.send_data(sid, &rec, false, Duration::from_secs(5))?;
    c.run_until(Duration::from_secs(5), |c| parse_out(&c.streams[&sid].body).map(|r| r.len() >= 2).unwrap_or(false));
    let l = log1.lock().unwrap().clone();
    let mut problems = vec![];
    if l.len() != 2 { problems.push(format!("the destination received {} of the 2 datagrams", l.len())); }
    else if l[0].0 == l[1].0 { problems.push(format!("a datagram sent {:?} after the flow's last activity left from the same outbound socket (port {}): the flow was not released after the configured UDP timeout", idle, l[0].0)); }
    if parse_out(&c.stream(sid).body).map(|r| r.len()).unwrap_or(0) != 2 && problems.is_empty() { problems.push("the two replies did not both come back".into()); }
    c.close();
    Ok(problems)
}

/// the reply records under the client's flow control (6.4: a record goes out whole or not at all): the client's stream window
/// is `w` octets, so a reply of `big` payload octets may or may not fit; whatever the endpoint decides, the octets on the stream
/// are whole records, the stream lives on, and the later small replies arrive once the client reads
fn run_window(server: SocketAddr, n: u32, w: u64, big: usize) -> Result<Vec<String>, String> {
    let to = Duration::from_secs(10);
    let (p1, _log1) = echo_server();
    let mut c = H3Conn::connect(server, &ClientOpts { src_ip: source_ip(n), windows: Some((1 << 20, w)), ..Default::default() }).map_err(|e| format!("handshake: {:?}", e))?;
    c.body_keep = 1 << 16;
    let sid = c.request(&request_headers("CONNECT", "_udp2", &[("user-agent", b"verif-harness")]), false)?;
    c.hold.insert(sid);
    if !c.run_until(to, |c| c.streams.get(&sid).map(|s| !s.heads.is_empty() || s.ended()).unwrap_or(false)) || c.stream(sid).status(0) != 200 {
        return Err(format!("CONNECT _udp2 not answered 200 (status {})", c.stream(sid).status(0)));
    }
    let src = ([10u8, 0, 0, 1], 4001u16);
    let dst = ([127u8, 0, 0, 1], p1);
    let payload: Vec<u8> = (0..big).map(|i| b'a' + (i % 26) as u8).collect();
    c.send_data(sid, &record_in(src, dst, "", &payload), false, Duration::from_secs(5))?;
    // the reply meets the window while the client reads nothing
    c.settle(Duration::from_millis(60), Duration::from_secs(2));
    // now the client reads everything; three small datagrams follow
    let mut want_small = vec![];
    for k in 0..3u8 {
        c.read_body(sid, usize::MAX);
        let p = vec![b'0' + k; 5 + k as usize];
        if c.send_data(sid, &record_in(src, dst, "", &p), false, Duration::from_secs(5)).is_err() { c.linger(Duration::from_millis(50)); break; } // (the stream is gone: judged below)
        let mut r = p.clone(); r.reverse();
        want_small.push(r);
        let t0 = Instant::now();
        while t0.elapsed() < Duration::from_millis(400) {
            c.read_body(sid, usize::MAX);
            c.linger(Duration::from_millis(10));
            if c.stream(sid).ended() { break; }
            if let Ok(rs) = parse_out(&c.stream(sid).body) { if rs.iter().filter(|x| x.2.len() < 20).count() > k as usize { break; } }
        }
    }
    let s = c.stream(sid);
    let mut problems = vec![];
    if s.ended() || c.is_closed() || want_small.len() < 3 { problems.push(format!("the multiplexer stream ended (finished={} reset={:?}, connection closed: {}) after {} octets of replies", s.finished, s.reset, c.is_closed(), s.body.len())); }
    match parse_out(&s.body) {
        Err(e) => problems.push(format!("the reply stream is not a sequence of whole records: {}", e)),
        Ok(rs) => {
            let mut rev = payload.clone(); rev.reverse();
            for r in &rs { if r.2.len() >= 20 && r.2 != rev { problems.push(format!("a reply record of {} payload octets is not the echo of the datagram sent", r.2.len())); } }
            let small: Vec<Vec<u8>> = rs.iter().filter(|x| x.2.len() < 20).map(|x| x.2.clone()).collect();
            if small != want_small && problems.is_empty() { problems.push(format!("{} of the 3 small replies sent after the client opened its window came back", small.len())); }
        }
    }
    c.close();
    Ok(problems)
}

fn main() {
    quiet_panics();
    install_logger();
    let out_path = arg("--out").expect("--out");
    let vectors = arg("--vectors").expect("--vectors");
    let mut rep = Report::new("c07h3");
    watchdog::arm(&out_path, Duration::from_secs(300));
    let server_rt = tokio::runtime::Builder::new_multi_thread().worker_threads(4).thread_name("endpoint").enable_all().build().unwrap();
    set_forwarder(None);
    let ep = start_endpoint(&server_rt, &EndpointOpts { allow_private: true, establishment_timeout: Duration::from_secs(5), ..Default::default() });
    // the distinct segmentations of the six units of three records
    let mut segs: BTreeSet<Vec<usize>> = BTreeSet::new();
    for v in read_tagged(&vectors, "DGR") {
        let s: Vec<usize> = v["seg"].as_array().unwrap().iter().map(|x| x.as_u64().unwrap() as usize).collect();
        if s.iter().sum::<usize>() == 6 { segs.insert(s); }
    }
    rep.count("segmentations", segs.len() as u64);
    let max: usize = arg_or("--max", "16").parse().unwrap();
    let mut list: Vec<Vec<usize>> = segs.into_iter().collect();
    if list.len() > max { let k = list.len() / max; let off = (seed() as usize) % k.max(1); list = list.into_iter().enumerate().filter(|(i, _)| i % k.max(1) == off).map(|(_, s)| s).collect(); }
    for (i, seg) in list.iter().enumerate() {
        for cut in [3usize, 41] {
            rep.eval();
            rep.nontrivial(format!("h3udp|{:?}|{}", seg, cut));
            let desc = json!({"proto": "h3", "request": "CONNECT _udp2", "chunks_in_units": seg, "first_unit_octets": cut, "records": 3, "flows": 2});
            let d2 = desc.clone();
            watchdog::enter(move || ("udpmux-h3:hang".into(), "scenario did not finish".into(), d2));
            let r = catch(|| run(ep.addr, 300 + (i as u32) * 2 + (cut == 41) as u32, seg, cut)).unwrap_or_else(|p| Err(format!("client panic: {}", p)));
            watchdog::leave();
            match r {
                Err(e) => rep.violation_with("udpmux-h3:setup", e, || desc.clone()),
                Ok(p) if p.is_empty() => rep.count("flows_round_trips", 3),
                Ok(p) => {
                    let class = if p[0].contains("destination") { "routing" } else if p[0].contains("socket") { "sockets" } else if p[0].contains("ended") { "ended" } else { "replies" };
                    rep.violation_with(format!("udpmux-h3:{}", class), p.join("; "), || json!({"scenario": desc, "problems": p}));
                }
            }
        }
    }
    // ---- reply records against the edge of the client's stream window
    {
        let big = 1000usize; // a reply record of 1040 octets; the response HEADERS frame shares the window
        let (lo, hi) = if tier_thorough() { (1040u64, 1140u64) } else { (1060u64, 1100u64) };
        for w in lo..=hi {
            let desc = json!({"proto": "h3", "request": "CONNECT _udp2", "client_stream_window": w, "reply_record_octets": big + 40});
            let d2 = desc.clone();
            watchdog::enter(move || ("udpmux-h3:hang".into(), "scenario did not finish".into(), d2));
            let r = catch(|| run_window(ep.addr, 600 + (w - lo) as u32, w, big)).unwrap_or_else(|p| Err(format!("client panic: {}", p)));
            watchdog::leave();
            rep.eval();
            rep.nontrivial(format!("h3udp|window|{}", w));
            match r {
                Err(e) => rep.violation_with("udpmux-h3:setup", e, || desc.clone()),
                Ok(p) if p.is_empty() => rep.count("window_edge_runs", 1),
                Ok(p) => rep.violation_with(format!("udpmux-h3:window:{}", if p[0].contains("ended") { "ended" } else if p[0].contains("whole records") { "partial-record" } else { "replies" }), p.join("; "), || json!({"scenario": desc, "problems": p})),
            }
        }
    }
    // ---- the configured UDP timeout (shorter than the establishment timeout) on the real CONNECT _udp2 path
    {
        let ep_t = start_endpoint(&server_rt, &EndpointOpts { allow_private: true, establishment_timeout: Duration::from_secs(6), udp_timeout: Some(Duration::from_secs(1)), ..Default::default() });
        let desc = json!({"proto": "h3", "request": "CONNECT _udp2", "udp_connections_timeout_s": 1, "connection_establishment_timeout_s": 6, "idle_s": 2.2});
        let d2 = desc.clone();
        watchdog::enter(move || ("udpmux-h3:hang".into(), "scenario did not finish".into(), d2));
        let r = catch(|| run_expiry(ep_t.addr, 500, Duration::from_millis(2200))).unwrap_or_else(|p| Err(format!("client panic: {}", p)));
        watchdog::leave();
        rep.eval();
        rep.nontrivial("h3udp|expiry");
        match r {
            Err(e) => rep.violation_with("udpmux-h3:setup", e, || desc.clone()),
            Ok(p) if p.is_empty() => rep.count("expiry_runs", 1),
            Ok(p) => rep.violation_with("udpmux-h3:expiry", p.join("; "), || json!({"scenario": desc, "problems": p})),
        }
        ep_t.stop();
    }
    // ---- the ICMP multiplexer over HTTP/3 (raw sockets on lo: needs root, otherwise skipped with a note)
    let ep_icmp = start_endpoint(&server_rt, &EndpointOpts { allow_private: true, establishment_timeout: Duration::from_secs(5), icmp_interface: Some("lo".into()), ..Default::default() });
    for (i, seg) in list.iter().enumerate().take(if tier_thorough() { 16 } else { 6 }) {
        let desc = json!({"proto": "h3", "request": "CONNECT _icmp", "chunks_in_units": seg, "requests": 3});
        let d2 = desc.clone();
        watchdog::enter(move || ("icmpmux-h3:hang".into(), "scenario did not finish".into(), d2));
        let r = catch(|| run_icmp(ep_icmp.addr, 400 + i as u32, seg)).unwrap_or_else(|p| Err(format!("client panic: {}", p)));
        watchdog::leave();
        match r {
            Err(e) if e.contains("not answered 200") && i == 0 => { rep.note(format!("ICMP multiplexer over HTTP/3 not driven: {}", e)); break; }
            Err(e) => { rep.eval(); rep.violation_with("icmpmux-h3:setup", e, || desc.clone()) }
            Ok(p) if p.is_empty() => { rep.eval(); rep.nontrivial(format!("h3icmp|{:?}", seg)); rep.count("icmp_round_trips", 3) }
            Ok(p) => { rep.eval(); rep.violation_with(format!("icmpmux-h3:{}", if p[0].contains("ended") { "ended" } else { "replies" }), p.join("; "), || json!({"scenario": desc, "problems": p})) }
        }
    }
    if !ep.is_running() { rep.violation_with("udpmux-h3:listener-died", "Core::listen returned while a multiplexer was being served", || json!({})); }
    let _: Value = json!(null);
    rep.finish(&out_path);
}
