//! Datagram readers under cancellation (DgramReader.tla): every behaviour TLC generates is replayed
//! on the real `http_downstream::DatagramDecoder` (UDP and ICMP multiplexer) over a gated byte
//! source: read() is polled by hand, dropped where the model says Cancel, and the records it returns
//! must be the records the client wrote - in order, each exactly once.

use async_trait::async_trait;
use bytes::Bytes;
use serde_json::json;
use std::future::Future;
use std::io;
use std::pin::Pin;
use std::sync::{Arc, Mutex};
use std::task::{Context, Poll};
use trusttunnel::verif::codec::{IcmpReader, UdpReader};
use trusttunnel::verif::pipe::{VData, VSource};
use ttv::*;

struct GatedSrc {
    chunks: Vec<Vec<u8>>,
    permits: Arc<Mutex<usize>>,
}

#[async_trait]
impl VSource for GatedSrc {
    async fn read(&mut self) -> io::Result<VData> {
        // cancel-safe by construction: nothing is taken before a permit is there
        std::future::poll_fn(|_cx| {
            let mut p = self.permits.lock().unwrap();
            if *p == 0 { return Poll::Pending; }
            *p -= 1;
            Poll::Ready(Ok(if self.chunks.is_empty() { VData::Eof } else { VData::Chunk(Bytes::from(self.chunks.remove(0))) }))
        }).await
    }
    fn consume(&mut self, _n: usize) -> io::Result<()> { Ok(()) }
}

fn poll_once<F: Future + ?Sized>(f: Pin<&mut F>) -> Poll<F::Output> {
    let w = futures::task::noop_waker();
    let mut cx = Context::from_waker(&w);
    f.poll(&mut cx)
}

enum Reader { Udp(UdpReader), Icmp(IcmpReader) }

impl Reader {
    // the observable content of one record, as a string that identifies it
    async fn read(&mut self) -> io::Result<String> {
        match self {
            Reader::Udp(r) => r.read().await.map(|d| format!("udp {} -> {} app={:?} payload={}", d.source, d.destination, d.app_name.filter(|s| !s.is_empty()), String::from_utf8_lossy(&d.payload))),
            Reader::Icmp(r) => r.read().await.map(|d| format!("icmp {} id={} seq={} ttl={} len={}", d.peer, d.identifier, d.sequence_number, d.ttl, d.data_len)),
        }
    }
}

/// record k of the stream: (bytes on the wire, what the reader must return)
fn record(kind: &str, k: usize, shape: usize) -> (Vec<u8>, String) {
    if kind == "udp" {
        let payload: Vec<u8> = (0..(3 + 5 * k + 40 * shape)).map(|i| b'a' + ((i + k) % 26) as u8).collect();
        let app = if shape == 1 { format!("app{}", k) } else { String::new() };
        let mut b = vec![];
        b.extend_from_slice(&((16 + 2 + 16 + 2 + 1 + app.len() + payload.len()) as u32).to_be_bytes());
        let src = [0u8, 0, 0, 0, 0, 0, 0, 0, 0, 0, 0, 0, 10, 0, 0, (k + 1) as u8];
        let dst = [0u8, 0, 0, 0, 0, 0, 0, 0, 0, 0, 0, 0, 192, 0, 2, (k + 7) as u8];
        b.extend_from_slice(&src); b.extend_from_slice(&(4000 + k as u16).to_be_bytes());
        b.extend_from_slice(&dst); b.extend_from_slice(&(53 + k as u16).to_be_bytes());
        b.push(app.len() as u8); b.extend_from_slice(app.as_bytes());
        b.extend_from_slice(&payload);
        let want = format!("udp 10.0.0.{}:{} -> 192.0.2.{}:{} app={:?} payload={}", k + 1, 4000 + k, k + 7, 53 + k,
            if app.is_empty() { None } else { Some(app) }, String::from_utf8_lossy(&payload));
        (b, want)
    } else {
        let mut b = vec![];
        let id = 0x1100 + k as u16; let seq = 7 * k as u16 + 1; let ttl = 30 + k as u8; let len = 8 * k as u16 + shape as u16;
        b.extend_from_slice(&id.to_be_bytes());
        b.extend_from_slice(&[0u8, 0, 0, 0, 0, 0, 0, 0, 0, 0, 0, 0, 198, 51, 100, (k + 1) as u8]);
        b.extend_from_slice(&seq.to_be_bytes()); b.push(ttl); b.extend_from_slice(&len.to_be_bytes());
        (b, format!("icmp 198.51.100.{} id={} seq={} ttl={} len={}", k + 1, id, seq, ttl, len))
    }
}

fn main() {
    quiet_panics();
    logcap::install();
    let vectors = arg("--vectors").expect("--vectors");
    let out_path = arg("--out").expect("--out");
    let mut rep = Report::new("dgr");
    watchdog::arm(&out_path, std::time::Duration::from_secs(10));
    let kinds: Vec<String> = arg_or("--kinds", "udp,icmp").split(',').map(|s| s.to_string()).collect();
    const UPR: usize = 2; // UnitsPerRecord of MCDgramReader.cfg
    let behs = read_tagged(&vectors, "DGR");
    for v in &behs {
        let seg: Vec<usize> = v["seg"].as_array().unwrap().iter().map(|x| x.as_u64().unwrap() as usize).collect();
        let hist: Vec<String> = v["hist"].as_array().unwrap().iter().map(|x| x.as_str().unwrap().to_string()).collect();
        let want_out = v["out"].as_u64().unwrap() as usize;
        let units: usize = seg.iter().sum();
        let nrec = (units + UPR - 1) / UPR; // the last one may be incomplete
        let ncancel = hist.iter().filter(|a| *a == "Cancel").count();
        for kind in &kinds {
            // where the first unit of a record ends: inside the length / id field, at the end of the
            // fixed header, inside the payload (UDP)
            let cuts: &[usize] = if kind == "udp" { &[1, 4, 41, 43] } else { &[1, 2, 18, 22] };
            for (shape, cut) in cuts.iter().enumerate() {
                rep.eval();
                let recs: Vec<(Vec<u8>, String)> = (0..nrec).map(|k| record(kind, k, shape % 2)).collect();
                // unit u of the stream -> bytes
                let unit_bytes = |u: usize| -> Vec<u8> { let r = &recs[u / UPR].0; if u % UPR == 0 { r[..*cut].to_vec() } else { r[*cut..].to_vec() } };
                let mut chunks: Vec<Vec<u8>> = vec![];
                let mut u = 0;
                for n in &seg { let mut c = vec![]; for _ in 0..*n { c.extend(unit_bytes(u)); u += 1; } chunks.push(c); }
                let class = format!("dgram-reader:{}:{}", kind, if ncancel > 0 { "after-cancel" } else { "plain" });
                let detail = |what: String, got: &Vec<String>| json!({"kind": "dgram-reader", "mux": kind, "behaviour": v, "first_unit_bytes": cut, "chunk_lengths": chunks.iter().map(|c| c.len()).collect::<Vec<_>>(), "what": what, "observed": got, "records": recs.iter().map(|r| r.1.clone()).collect::<Vec<_>>()});
                let permits: Arc<Mutex<usize>> = Default::default();
                let r = catch(|| {
                    let src = Box::new(GatedSrc { chunks: chunks.clone(), permits: permits.clone() });
                    let mut reader = if kind == "udp" { Reader::Udp(UdpReader::new(src)) } else { Reader::Icmp(IcmpReader::new(src)) };
                    let mut got: Vec<String> = vec![];
                    let mut i = 0;
                    while i < hist.len() {
                        match hist[i].as_str() {
                            "ReadTail" => {
                                // bytes of a whole record are buffered: the read needs nothing from the source.
                                // If it yields nevertheless, the caller may drop it there (Cancel changes nothing)
                                let mut done = false;
                                for _attempt in 0..4 {
                                    let mut fut = Box::pin(reader.read());
                                    if let Poll::Ready(d) = poll_once(fut.as_mut()) { drop(fut); got.push(d?); done = true; break; }
                                }
                                if !done { return Ok::<_, io::Error>((got, Some(format!("step {} (ReadTail): a whole record is buffered, yet read() stays pending after a pending read was dropped", i)))); }
                                i += 1;
                            }
                            "StartRead" => {
                                let mut fut = Box::pin(reader.read());
                                if let Poll::Ready(d) = poll_once(fut.as_mut()) {
                                    drop(fut);
                                    let what = match d { Ok(s) => format!("the record {:?}", s), Err(e) => format!("the error {}", e) };
                                    return Ok((got, Some(format!("step {} (StartRead): read() returned {} although no whole record was delivered", i, what))));
                                }
                                i += 1;
                                loop {
                                    match hist.get(i).map(|s| s.as_str()) {
                                        Some("Cancel") => { i += 1; break; }
                                        Some("Deliver") => {
                                            *permits.lock().unwrap() += 1;
                                            i += 1;
                                            if let Poll::Ready(d) = poll_once(fut.as_mut()) { got.push(d?); break; }
                                        }
                                        Some("Eof") => {
                                            *permits.lock().unwrap() += 1;
                                            i += 1;
                                            match poll_once(fut.as_mut()) {
                                                Poll::Ready(Err(e)) if e.kind() == io::ErrorKind::UnexpectedEof => {}
                                                Poll::Ready(Err(e)) => return Ok((got, Some(format!("end of the stream reported as {:?}", e.kind())))),
                                                Poll::Ready(Ok(s)) => { got.push(s); }
                                                Poll::Pending => return Ok((got, Some("read() still pending after the stream ended".to_string()))),
                                            }
                                            break;
                                        }
                                        _ => break,
                                    }
                                }
                                drop(fut);
                            }
                            _ => { i += 1; }
                        }
                    }
                    Ok((got, None))
                });
                let (got, err) = match r {
                    Err(p) => { rep.violation_with(format!("{}:panic", class), format!("panic: {}", p), || detail("panic".into(), &vec![])); continue; }
                    Ok(Err(e)) => { rep.violation_with(format!("{}:error", class), format!("reading the multiplexer stream failed: {}", e), || detail(format!("error {}", e), &vec![])); continue; }
                    Ok(Ok(x)) => x,
                };
                let want: Vec<String> = recs.iter().take(want_out).map(|r| r.1.clone()).collect();
                if let Some(e) = err {
                    rep.violation_with(class.clone(), e.clone(), || detail(e.clone(), &got));
                } else if got != want {
                    rep.violation_with(class.clone(), format!("the reader returned {} records, DgramReader.tla says {} (the records the client wrote, in order): first difference at record {}",
                        got.len(), want.len(), got.iter().zip(want.iter()).position(|(a, b)| a != b).unwrap_or(got.len().min(want.len()))), || detail("a dropped read() changed what is delivered".into(), &got));
                }
                if ncancel > 0 || seg.iter().any(|n| *n > UPR) { rep.nontrivial(format!("dgr|{}|{:?}|{:?}|{}", kind, seg, hist, cut)); }
            }
        }
    }
    rep.count("tlc_behaviours_replayed", behs.len() as u64);
    rep.finish(&out_path);
}
