//! C12 — ClientHello random: exact, or absent; peeking is transparent.
//! TLC (Hello.tla / MCHello.tla) describes flights by their TLS record structure and the
//! segmentations; this harness materialises every flight with a real rustls ClientHello of
//! exactly those sizes and replays the scenarios into the real code:
//!   shapes    measure the real hellos (input of the TLC run)
//!   replay    (a) extract_client_random on every prefix against TLC's step function,
//!             (b) the real prebuffer loop over loopback TCP, segment by segment, against the
//!                 set of outcomes TLC found for the scenario; everything the wrapped stream
//!                 yields is compared with what was sent; hook events are written as a trace
//!                 for HelloTrace.tla,
//!             (c) brute-force cut positions against TLC's outcome set of the flight,
//!             (d) TlsListener::listen + a live rustls client through a segmenting relay:
//!                 the handshake completes, the acceptor sees the client's SNI/ALPN, the
//!                 random is the one TLC says (exact or absent).
//!   totality  (C09) short / mutated inputs under catch + watchdog.

#[path = "admission/common.rs"]
mod common;

use common::*;
use serde_json::{json, Value};
use std::collections::{BTreeMap, BTreeSet};
use std::io::{Read, Write};
use std::time::Duration;
use tokio::io::{AsyncReadExt, AsyncWriteExt};
use tokio::net::{TcpListener, TcpStream};
use trusttunnel::verif;
use trusttunnel::verif::hello::{self, Extraction};
use ttv::*;

const LONG_SNI: &str = "aaaaaaaaaaaaaaaaaaaaaaaaaaaaaaaaaaaaaaaaaaaaaaaaaaaaaaaaaaaaaaa.bbbbbbbbbbbbbbbbbbbbbbbbbbbbbbbbbbbbbbbbbbbbbbbbbbbbbbbbbbbbbbb.ccccccccccccccccccccccccccccccccccccccccccccccccccccccccccccccc.example.com";

fn base_params(name: &str) -> (&'static str, Vec<&'static str>) {
    match name {
        "min" => ("a.b", vec![]),
        "typ" => (MAIN_HOST, vec!["h2", "http/1.1"]),
        "long" => (LONG_SNI, vec!["h2", "http/1.1", "h3", "spdy/3.1", "foo"]),
        n => tool_error(&format!("unknown base hello {}", n)),
    }
}

fn tool_error(msg: &str) -> ! {
    eprintln!("tool error: {}", msg);
    std::process::exit(2)
}

fn usz(v: &Value) -> usize {
    v.as_u64().unwrap_or_else(|| tool_error(&format!("number expected: {}", v))) as usize
}

fn usz_list(v: &Value) -> Vec<usize> {
    v.as_array().map(|a| a.iter().map(usz).collect()).unwrap_or_default()
}

/// Apply a TLC directive to a real hello; returns the flight bytes
fn materialise(dir: &Value, base: &Hello) -> Vec<u8> {
    let mut h = base.clone();
    let ks = usz(&dir["ks"]);
    if ks > 0 {
        h = h.with_big_key_share(0x6399, ks).unwrap_or_else(|| tool_error("no key_share extension in the base hello"));
    }
    let padto = usz(&dir["padto"]);
    if padto > 0 {
        h = h.padded_to(padto).unwrap_or_else(|| tool_error(&format!("cannot pad hello of {} bytes to {}", h.msg.len(), padto)));
    }
    let split = usz_list(&dir["split"]);
    let mut flight;
    match dir["mut"].as_str().unwrap() {
        "empty" => return Vec::new(),
        "sid33" => {
            h.msg[4 + 2 + 32] = 33;
            flight = h.to_records(&split);
        }
        "hstype2" => {
            h.msg[0] = 2;
            flight = h.to_records(&split);
        }
        "hlplus5" => {
            let hl = h.msg.len() - 4 + 5;
            h.msg[1] = (hl >> 16) as u8;
            h.msg[2] = (hl >> 8) as u8;
            h.msg[3] = hl as u8;
            flight = h.to_records(&split);
        }
        m => {
            flight = h.to_records(&split);
            match m {
                "none" => {}
                "rectype23" => flight[0] = 23,
                "rectype21" => flight[0] = 21,
                "rectype99" => flight[0] = 99,
                "reclen17000" => flight[3..5].copy_from_slice(&17000u16.to_be_bytes()),
                "reclen16640" => flight[3..5].copy_from_slice(&16640u16.to_be_bytes()),
                "reclenplus10" => {
                    let l = u16::from_be_bytes([flight[3], flight[4]]) + 10;
                    flight[3..5].copy_from_slice(&l.to_be_bytes());
                }
                "truncated20" => {
                    let n = flight.len() - 20;
                    flight.truncate(n);
                }
                "recver0303" => flight[1..3].copy_from_slice(&[3, 3]),
                "recver0302" => flight[1..3].copy_from_slice(&[3, 2]),
                "recver0300" => flight[1..3].copy_from_slice(&[3, 0]),
                x => tool_error(&format!("unknown mutation {}", x)),
            }
        }
    }
    let trail = usz(&dir["trail"]);
    if trail > 0 {
        // a ChangeCipherSpec-typed record after the hello
        flight.push(20);
        flight.extend_from_slice(&h.rec_version);
        flight.extend_from_slice(&(trail as u16).to_be_bytes());
        flight.extend(std::iter::repeat(1u8).take(trail));
    }
    flight
}

struct Flt {
    name: String,
    dir: Value,
    total: usize,
    threshold: usize,
    after: String,
    rfrom: usize,
    rto: usize,
    close: bool,
    segs: Vec<Vec<usize>>,
    bytes: Vec<u8>,
    /// (result, prebuffer length) per segmentation, and the results over all segmentations
    outcomes: BTreeMap<Vec<usize>, BTreeSet<(String, usize)>>,
    results: BTreeSet<String>,
}

fn load(vectors: &str) -> Vec<Flt> {
    if let Some(p) = read_tagged(vectors, "PAUSES").first() {
        let _ = PAUSES.set(p["ms"].as_array().unwrap().iter().map(|x| x.as_u64().unwrap()).collect());
    }
    let mut bases: BTreeMap<String, Hello> = BTreeMap::new();
    let mut out = Vec::new();
    for f in read_tagged(vectors, "FLT") {
        let bname = f["dir"]["base"].as_str().unwrap().to_string();
        let base = bases.entry(bname.clone()).or_insert_with(|| {
            let (sni, alpn) = base_params(&bname);
            Hello::real(sni, &alpn)
        });
        let bytes = materialise(&f["dir"], base);
        let total = usz(&f["total"]);
        if bytes.len() != total {
            tool_error(&format!("flight {}: materialised {} bytes, TLC describes {}", f["name"], bytes.len(), total));
        }
        // the record structure TLC describes is the one on the wire
        let mut p = 0;
        for r in f["recs"].as_array().unwrap() {
            let (len, have) = (usz(&r["len"]), usz(&r["have"]));
            let code = match r["typ"].as_str().unwrap() { "hs" => 22, "ccs" => 20, "alert" => 21, "app" => 23, _ => 99 };
            if bytes[p] != code || u16::from_be_bytes([bytes[p + 3], bytes[p + 4]]) as usize != len {
                tool_error(&format!("flight {}: record at {} does not match TLC's description {}", f["name"], p, r));
            }
            p += 5 + have;
        }
        if p != total {
            tool_error(&format!("flight {}: records do not add up", f["name"]));
        }
        out.push(Flt {
            name: f["name"].as_str().unwrap().to_string(),
            dir: f["dir"].clone(),
            total,
            threshold: usz(&f["threshold"]),
            after: f["after"].as_str().unwrap().to_string(),
            rfrom: usz(&f["random_from"]),
            rto: usz(&f["random_to"]),
            close: f["close"].as_bool().unwrap(),
            segs: f["segs"].as_array().unwrap().iter().map(usz_list).collect(),
            bytes,
            outcomes: BTreeMap::new(),
            results: BTreeSet::new(),
        });
    }
    for o in read_tagged(vectors, "OUT") {
        let name = o["fl"].as_str().unwrap();
        let f = out.iter_mut().find(|f| f.name == name).unwrap_or_else(|| tool_error("OUT line for an unknown flight"));
        let res = o["result"].as_str().unwrap().to_string();
        f.outcomes.entry(usz_list(&o["segs"])).or_default().insert((res.clone(), usz(&o["pre"])));
        f.results.insert(res);
    }
    out
}

fn status_name(e: &Extraction) -> &'static str {
    match e {
        Extraction::Found(_) => "Found",
        Extraction::NeedMoreData => "NeedMore",
        Extraction::NotFound => "NotFound",
    }
}

fn sig(kind: &str, f: &Flt, what: &str) -> String {
    format!("c12:{}:{}:{}", kind, f.name, what)
}

// ------------------------------------------------------------------ (a) every prefix

fn prefixes(rep: &mut Report, f: &Flt, thorough: bool) {
    let n = f.total;
    let mut ps: BTreeSet<usize> = BTreeSet::new();
    if n <= 3000 || thorough {
        ps.extend(0..=n);
    } else {
        ps.extend(0..=64.min(n));
        ps.extend(f.threshold.saturating_sub(64)..=(f.threshold + 64).min(n));
        ps.extend(n.saturating_sub(64)..=n);
        for k in 1..=16 {
            ps.extend((k * 1024usize).saturating_sub(2)..=(k * 1024 + 2).min(n));
        }
        ps.extend((0..=n).step_by(97));
    }
    let mut first_bad = None;
    for p in ps {
        rep.eval();
        let exp = if p < f.threshold { "NeedMore" } else { f.after.as_str() };
        let (name, fl) = (f.name.clone(), f.bytes[..p].to_vec());
        watchdog::enter(move || (format!("c12:prefix:{}:hang", name), "extract_client_random did not return".into(), json!({"prefix_hex": hex(&fl[..fl.len().min(600)]), "prefix_len": fl.len()})));
        let got = catch(|| hello::extract_client_random(&f.bytes[..p]));
        watchdog::leave();
        match got {
            Err(pn) => {
                rep.violation_with(sig("prefix", f, "panic"), format!("extract_client_random panicked: {}", pn), || json!({"flight": f.name, "dir": f.dir, "prefix_len": p}));
            }
            Ok(e) => {
                let mut bad = None;
                if status_name(&e) != exp {
                    bad = Some(format!("status {} where the specification says {}", status_name(&e), exp));
                } else if let Extraction::Found(v) = &e {
                    if v.as_slice() != &f.bytes[f.rfrom - 1..f.rto] {
                        bad = Some(format!("value {} is not the client's random {}", hex(v), hex(&f.bytes[f.rfrom - 1..f.rto])));
                    }
                }
                if let Some(b) = bad {
                    if first_bad.is_none() {
                        first_bad = Some(p);
                    }
                    rep.violation_with(sig("prefix", f, exp), format!("extract_client_random on a {}-byte prefix: {}", p, b),
                        || json!({"flight": f.name, "dir": f.dir, "total": f.total, "threshold": f.threshold, "prefix_len": p, "expected": exp, "observed": status_name(&e), "first_bad_prefix": first_bad}));
                }
            }
        }
    }
    if f.after != "Found" {
        rep.nontrivial(format!("prefix|{}", f.name));
    }
}

// ------------------------------------------------------------------ (b), (c) the prebuffer loop on a socket

#[derive(Debug, Clone)]
struct PeekObs {
    random: Option<Vec<u8>>,
    pre: usize,
    got: Vec<u8>,
    events: Vec<Value>,
    trace: Vec<String>,
    /// every socket read of the loop returned all that was available (or one byte): the run
    /// followed one of the read schedules TLC explores, so its outcome set applies exactly
    max_reads: bool,
}

fn events_now() -> Vec<Value> {
    verif::drain_events().iter().filter_map(|l| serde_json::from_str(l).ok()).collect()
}

/// Send `flight` in `segs` over loopback to the real prebuffer loop. In lock-step mode each
/// segment is sent only after the loop has consumed the previous one (or has finished).
/// scenarios in which the real loop did not get on: the first few wait long (load), later ones briefly - a loop that
/// hangs is reported with every scenario it hangs on, without the job taking hours
static STUCK: std::sync::atomic::AtomicUsize = std::sync::atomic::AtomicUsize::new(0);
fn stuck_wait() -> Duration {
    match STUCK.load(std::sync::atomic::Ordering::Relaxed) { 0..=1 => Duration::from_secs(60), 2..=7 => Duration::from_secs(3), _ => Duration::from_millis(300) }
}

async fn run_peek(flight: &[u8], segs: &[usize], close: bool, lockstep: bool) -> Result<PeekObs, String> {
    run_peek_paused(flight, segs, close, lockstep, Duration::ZERO).await
}

/// `pause`: the next segment is late by this much (Hello.tla: a pause between two Sends is a stuttering step)
async fn run_peek_paused(flight: &[u8], segs: &[usize], close: bool, lockstep: bool, pause: Duration) -> Result<PeekObs, String> {
    // forty scenarios in which the loop (or the replay) hung tell the story: the rest is not run
    if STUCK.load(std::sync::atomic::Ordering::Relaxed) >= 40 { return Err("not run".into()); }
    let listener = TcpListener::bind("127.0.0.1:0").await.map_err(|e| e.to_string())?;
    let addr = listener.local_addr().unwrap();
    let total = flight.len();
    let nsegs = segs.len();
    verif::start_recording();
    let server = tokio::spawn(async move {
        let (s, _) = listener.accept().await?;
        let (mut peeked, random) = hello::peek(s).await?;
        let pre = peeked.prebuffer().0;
        // read back what the TLS stack would be given; classify each read by its source
        let mut got = Vec::new();
        let mut log: Vec<(bool, usize)> = Vec::new(); // (from the socket?, n)
        let mut wrote = false;
        // read sizes of the consumer vary with the scenario (the specification's ReadClasses)
        let mut buf = vec![0u8; if total > 600 { 4096 } else { [4096, 1, 7, 100][nsegs % 4] }];
        while got.len() < total || close {
            let before = peeked.prebuffer().1;
            let n = peeked.read(&mut buf).await?;
            if n == 0 {
                break;
            }
            let after = peeked.prebuffer().1;
            log.push((after == before, n));
            got.extend_from_slice(&buf[..n]);
            // Hello.tla TlsWrite: the TLS stack may answer before it has read everything it was sent (a large hello that
            // is complete within its first read, more records behind it); what it writes changes nothing of what it reads
            if !wrote {
                wrote = true;
                use tokio::io::AsyncWriteExt;
                let _ = peeked.write_all(&[0x15, 0x03, 0x03]).await;
            }
            if got.len() > total + 4096 {
                break; // more than was ever sent: judged as a transparency violation, not read forever
            }
        }
        Ok::<_, std::io::Error>((random, pre, got, log))
    });
    let mut c = TcpStream::connect(addr).await.map_err(|e| e.to_string())?;
    c.set_nodelay(true).ok();
    let mut trace: Vec<String> = Vec::new();
    let mut events: Vec<Value> = Vec::new();
    let mut pos = 0;
    let mut i = 0;
    let mut peek_done = false;
    let mut consumed = 0usize;
    let mut max_reads = lockstep;
    while pos < total {
        let n = if i < segs.len() { segs[i].min(total - pos) } else { total - pos };
        i += 1;
        trace.push(json!({"ev": "Send", "n": n}).to_string());
        if c.write_all(&flight[pos..pos + n]).await.is_err() {
            break; // the endpoint is allowed to have gone away; what it saw is judged below
        }
        pos += n;
        if lockstep && !peek_done {
            // wait until the loop has taken everything that was sent, or has finished
            let t0 = std::time::Instant::now();
            loop {
                for e in events_now() {
                    match e["ev"].as_str() {
                        Some("PeekRead") => {
                            consumed = usz(&e["total"]);
                            let n = usz(&e["n"]);
                            let before = consumed - n;
                            let full = 1024.min(16 * 1024 - before).min(pos.saturating_sub(before));
                            if n != full && n != 1 {
                                max_reads = false; // a short read: legal, but not a schedule TLC enumerated
                            }
                        }
                        Some("PeekDone") => peek_done = true,
                        _ => {}
                    }
                    trace.push(e.to_string());
                    events.push(e);
                }
                if peek_done || consumed >= pos {
                    break;
                }
                if t0.elapsed() > stuck_wait() {
                    STUCK.fetch_add(1, std::sync::atomic::Ordering::Relaxed);
                    return Err(format!("the prebuffer loop did not consume {} sent bytes within {:?} (consumed {})", pos, stuck_wait(), consumed));
                }
                tokio::time::sleep(Duration::from_millis(1)).await;
            }
            if !pause.is_zero() && !peek_done && pos < total {
                tokio::time::sleep(pause).await;
            }
        }
    }
    if close {
        trace.push(json!({"ev": "ClientClose"}).to_string());
        let _ = c.shutdown().await;
    }
    let r = tokio::time::timeout(stuck_wait() * 2, server).await;
    let (random, pre, got, log) = match r {
        Err(_) => { STUCK.fetch_add(1, std::sync::atomic::Ordering::Relaxed); return Err(format!("the peek / read-back did not finish within {:?}", stuck_wait() * 2)); }
        Ok(Err(e)) => return Err(format!("server task: {}", e)),
        Ok(Ok(Err(e))) => return Err(format!("peek failed: {}", e)),
        Ok(Ok(Ok(x))) => x,
    };
    for e in events_now() {
        trace.push(e.to_string());
        events.push(e);
    }
    verif::stop_recording();
    for (from_sock, n) in log {
        if from_sock {
            trace.push(json!({"ev": "SockGot", "n": n}).to_string());
        }
    }
    trace.push(json!({"ev": "End", "total": got.len()}).to_string());
    Ok(PeekObs { random, pre, got, events, trace, max_reads })
}

/// Judge one observation against TLC's outcome set; returns true if it conforms
fn judge(rep: &mut Report, f: &Flt, segs: &[usize], mode: &str, obs: &Result<PeekObs, String>, allowed: Option<&BTreeSet<(String, usize)>>) -> bool {
    let detail = |extra: Value| json!({"flight": f.name, "dir": f.dir, "total": f.total, "segs": segs, "mode": mode, "observed": extra,
                                      "allowed": allowed.map(|s| s.iter().map(|x| json!([x.0, x.1])).collect::<Vec<_>>())});
    let o = match obs {
        Err(e) if e == "not run" => { rep.count("not_run_after_hangs", 1); return false; }
        Err(e) => {
            rep.violation_with(sig(mode, f, "stuck"), format!("prebuffer loop: {}", e), || detail(json!(e)));
            return false;
        }
        Ok(o) => o,
    };
    let res = if o.random.is_some() { "found" } else { "absent" };
    let mut ok = true;
    // ExactOrAbsent
    if let Some(r) = &o.random {
        if f.total < f.rto || r.as_slice() != &f.bytes[f.rfrom - 1..f.rto] {
            rep.violation_with(sig(mode, f, "value"), "the reported client random is not the random field the client sent", || detail(json!({"random": hex(r)})));
            ok = false;
        }
    }
    if !f.results.contains(res) {
        rep.violation_with(sig(mode, f, res), format!("client random {} where the specification allows only {:?}", res, f.results), || detail(json!({"result": res, "pre": o.pre})));
        ok = false;
    } else if let (Some(a), true) = (allowed, o.max_reads) {
        if !a.contains(&(res.to_string(), o.pre)) {
            rep.violation_with(sig(mode, f, "outcome"), format!("({}, prebuffer {}) is not an outcome of the specification for this scenario", res, o.pre), || detail(json!({"result": res, "pre": o.pre})));
            ok = false;
        }
    }
    // CapRespected
    if o.pre > 16 * 1024 {
        rep.violation_with(sig(mode, f, "cap"), format!("prebuffer grew to {} bytes", o.pre), || detail(json!({"pre": o.pre})));
        ok = false;
    }
    // Transparent: the wrapped stream yields exactly what was sent
    if o.got != f.bytes {
        let d = o.got.iter().zip(f.bytes.iter()).position(|(a, b)| a != b).unwrap_or(o.got.len().min(f.bytes.len()));
        rep.violation_with(sig(mode, f, "transparency"), format!("the wrapped stream yields {} bytes, {} were sent; first difference at {}", o.got.len(), f.bytes.len(), d),
            || detail(json!({"got_len": o.got.len(), "first_difference": d, "pre": o.pre})));
        ok = false;
    }
    ok
}

static PAUSES: std::sync::OnceLock<Vec<u64>> = std::sync::OnceLock::new();

fn socket_scenarios(rep: &mut Report, flights: &[Flt], thorough: bool, trace_out: Option<String>) {
    let rt = tokio::runtime::Builder::new_current_thread().enable_all().build().unwrap();
    let mut trace: Vec<String> = Vec::new();
    for f in flights {
        // (b) TLC's scenarios, lock-step and burst
        for segs in &f.segs {
            let allowed = f.outcomes.get(segs);
            if allowed.is_none() {
                tool_error(&format!("no OUT line for flight {} segs {:?}", f.name, segs));
            }
            if segs.len() > 400 && !thorough && f.name != "min" {
                continue; // byte-at-a-time delivery of the other small flights: thorough tier
            }
            for mode in ["lockstep", "burst"] {
                if mode == "burst" && segs.len() > 3 {
                    continue;
                }
                rep.eval();
                rep.count("tlc_scenarios_replayed", 1);
                let obs = rt.block_on(run_peek(&f.bytes, segs, f.close, mode == "lockstep"));
                let ok = judge(rep, f, segs, mode, &obs, allowed);
                if let Ok(o) = &obs {
                    rep.count(if o.max_reads { "exact_outcome_checks" } else { "result_only_checks" }, 1);
                }
                if !segs.is_empty() || f.results.contains("absent") {
                    rep.nontrivial(format!("{}|{:?}|{}", f.name, segs, mode));
                }
                if let (true, "lockstep", Ok(o)) = (ok, mode, &obs) {
                    trace.push(json!({"ev": "Flight", "fl": f.name, "segs": segs}).to_string());
                    trace.extend(o.trace.iter().cloned());
                    rep.count("traces_recorded", 1);
                }
                if rep.evaluations % 211 == 3 {
                    if let Ok(o) = &obs {
                        rep.sample(json!({"flight": f.name, "total": f.total, "segs": segs, "mode": mode, "random": o.random.as_ref().map(|r| hex(r)), "prebuffer": o.pre}));
                    }
                }
            }
        }
        // (b') arrival times: the one-cut scenarios whose cut lies before the end of the first record, with the
        // second segment late by each of the specification's pauses: the same outcome set applies
        if let Some(pauses) = PAUSES.get() {
            let late: Vec<&Vec<usize>> = f.segs.iter().filter(|s| s.len() == 2 && s[0] < f.threshold.min(f.total)).collect();
            for (pi, ms) in pauses.iter().enumerate() {
                // the long pause on a few flights only (run time)
                let take = if *ms > 1000 { if thorough { 2 } else if f.name == "min" || f.name.starts_with("chrome") { 1 } else { 0 } } else if thorough { 4 } else { 1 };
                for segs in late.iter().skip(pi).step_by(3).take(take) {
                    rep.eval();
                    rep.count("paused_scenarios", 1);
                    let obs = rt.block_on(run_peek_paused(&f.bytes, segs, f.close, true, Duration::from_millis(*ms)));
                    judge(rep, f, segs, &format!("late{}", ms), &obs, f.outcomes.get(*segs));
                    rep.nontrivial(format!("{}|{:?}|late{}", f.name, segs, ms));
                }
            }
        }
        // (c) brute force: every 1-cut (stride for large flights), 2-cuts around the fields in the thorough tier
        if f.total >= 2 {
            let mut cuts: Vec<Vec<usize>> = Vec::new();
            let stride = if f.total <= 600 { 1 } else if thorough { 53 } else { 509 };
            let mut c = 1;
            while c < f.total {
                cuts.push(vec![c]);
                c += stride;
            }
            if thorough && f.total <= 600 {
                for a in (1..f.total.min(60)).step_by(3) {
                    for b in ((a + 1)..f.total).step_by(17) {
                        cuts.push(vec![a, b - a]);
                    }
                }
            }
            for segs in cuts {
                rep.eval();
                rep.count("bruteforce_cuts", 1);
                let obs = rt.block_on(run_peek(&f.bytes, &segs, f.close, true));
                judge(rep, f, &segs, "cut", &obs, None);
            }
        }
    }
    if let Some(p) = trace_out {
        std::fs::write(&p, trace.join("\n") + "\n").expect("write trace");
        rep.count("trace_lines", trace.len() as u64);
    }
}

// ------------------------------------------------------------------ (d) live rustls handshake through a segmenting relay

struct LiveObs {
    server_random: Option<Vec<u8>>,
    server_sni: Option<String>,
    server_alpn: Vec<Vec<u8>>,
    handshake_ok: bool,
    echo_ok: bool,
    hello_random: Vec<u8>,
    error: Option<String>,
}

fn live_handshake(f: &Flt, segs: &[usize], cert_path: &str) -> LiveObs {
    use rustls::{ClientConnection, ServerName};
    let (sni, alpn) = base_params(f.dir["base"].as_str().unwrap());
    let certs: Vec<Vec<u8>> = trusttunnel::utils::load_certs(cert_path).expect("certs").into_iter().map(|c| c.0).collect();
    let key = trusttunnel::utils::load_private_key(cert_path).expect("key").0;
    let rt = tokio::runtime::Builder::new_current_thread().enable_all().build().unwrap();
    let split = usz_list(&f.dir["split"]);
    let segs = segs.to_vec();
    rt.block_on(async move {
        let listener = TcpListener::bind("127.0.0.1:0").await.unwrap();
        let addr = listener.local_addr().unwrap();
        let h2 = alpn.contains(&"h2");
        let server = tokio::spawn(async move {
            let (s, _) = listener.accept().await?;
            let acc = hello::listen(s).await?;
            let (r, n, a) = (acc.client_random(), acc.sni(), acc.alpn());
            let hs = async {
                let mut st = acc.accept(h2, certs, key).await?;
                let mut b = [0u8; 4];
                st.read_exact(&mut b).await?;
                st.write_all(&b).await?;
                st.flush().await?;
                Ok::<_, std::io::Error>(())
            }
            .await;
            Ok::<_, std::io::Error>((r, n, a, hs.map_err(|e| e.to_string())))
        });
        let mut obs = LiveObs { server_random: None, server_sni: None, server_alpn: vec![], handshake_ok: false, echo_ok: false, hello_random: vec![], error: None };
        let mut conn = ClientConnection::new(client_config(&alpn), ServerName::try_from(sni).unwrap()).unwrap();
        let mut first = Vec::new();
        while conn.wants_write() {
            conn.write_tls(&mut first).unwrap();
        }
        let hello = Hello::from_record(&first);
        obs.hello_random = hello.random();
        let flight = hello.to_records(&split);
        let mut c = TcpStream::connect(addr).await.unwrap();
        c.set_nodelay(true).ok();
        let mut pos = 0;
        let mut i = 0;
        while pos < flight.len() {
            let n = if i < segs.len() { segs[i].min(flight.len() - pos) } else { flight.len() - pos };
            i += 1;
            if c.write_all(&flight[pos..pos + n]).await.is_err() {
                break;
            }
            pos += n;
            tokio::time::sleep(Duration::from_millis(2)).await; // let the segment leave on its own
        }
        // drive the client until the handshake is over and the echo came back
        let client = async {
            let mut sent_ping = false;
            let mut buf = vec![0u8; 8192];
            loop {
                while conn.wants_write() {
                    let mut out = Vec::new();
                    conn.write_tls(&mut out).map_err(|e| e.to_string())?;
                    c.write_all(&out).await.map_err(|e| e.to_string())?;
                }
                if !conn.is_handshaking() && !sent_ping {
                    conn.writer().write_all(b"ping").map_err(|e| e.to_string())?;
                    sent_ping = true;
                    continue;
                }
                let n = c.read(&mut buf).await.map_err(|e| e.to_string())?;
                if n == 0 {
                    return Err("server closed".to_string());
                }
                let mut rd = &buf[..n];
                while !rd.is_empty() {
                    conn.read_tls(&mut rd).map_err(|e| e.to_string())?;
                    conn.process_new_packets().map_err(|e| e.to_string())?;
                }
                let mut echo = [0u8; 4];
                match conn.reader().read(&mut echo) {
                    Ok(4) => return Ok(echo == *b"ping"),
                    Ok(_) => {}
                    Err(e) if e.kind() == std::io::ErrorKind::WouldBlock => {}
                    Err(e) => return Err(e.to_string()),
                }
            }
        };
        match tokio::time::timeout(Duration::from_secs(120), client).await {
            Ok(Ok(e)) => {
                obs.handshake_ok = true;
                obs.echo_ok = e;
            }
            Ok(Err(e)) => obs.error = Some(format!("client: {}", e)),
            Err(_) => obs.error = Some("client: no progress for 120 s".into()),
        }
        drop(c);
        match tokio::time::timeout(Duration::from_secs(120), server).await {
            Ok(Ok(Ok((r, n, a, hs)))) => {
                obs.server_random = r;
                obs.server_sni = n;
                obs.server_alpn = a;
                if let Err(e) = hs {
                    obs.error.get_or_insert(format!("server handshake: {}", e));
                }
            }
            Ok(Ok(Err(e))) => obs.error = Some(format!("listen: {}", e)),
            _ => obs.error = Some("server task did not finish".into()),
        }
        obs
    })
}

fn live_mode(rep: &mut Report, flights: &[Flt], cert_path: &str) {
    for f in flights {
        // only flights whose handshake *message* is the untouched one of the live client
        let d = &f.dir;
        if d["mut"] != "none" || usz(&d["padto"]) > 0 || usz(&d["ks"]) > 0 || usz(&d["trail"]) > 0 {
            continue;
        }
        let (sni, alpn) = base_params(d["base"].as_str().unwrap());
        for segs in f.segs.iter().filter(|s| s.len() <= 2) {
            rep.eval();
            rep.count("live_handshakes", 1);
            let o = live_handshake(f, segs, cert_path);
            let detail = || json!({"flight": f.name, "dir": f.dir, "segs": segs, "error": o.error, "server_random": o.server_random.as_ref().map(|r| hex(r)),
                                  "hello_random": hex(&o.hello_random), "server_sni": o.server_sni, "handshake_ok": o.handshake_ok});
            // Transparent: the TLS stack completes the handshake on the bytes it is given
            if !(o.handshake_ok && o.echo_ok) {
                rep.violation_with(sig("live", f, "handshake"), format!("TLS handshake through the peeking listener failed: {:?}", o.error), detail);
                continue;
            }
            if o.server_sni.as_deref() != Some(sni) || o.server_alpn != alpn.iter().map(|a| a.as_bytes().to_vec()).collect::<Vec<_>>() {
                rep.violation_with(sig("live", f, "hello-view"), "the acceptor does not see the SNI/ALPN the client sent", detail);
            }
            // ExactOrAbsent, with TLC's result set for the flight
            let res = if o.server_random.is_some() { "found" } else { "absent" };
            if !f.results.contains(res) {
                rep.violation_with(sig("live", f, res), format!("client random {} where the specification allows only {:?}", res, f.results), detail);
            } else if let Some(r) = &o.server_random {
                if *r != o.hello_random {
                    rep.violation_with(sig("live", f, "value"), "the reported client random is not the one of the ClientHello", detail);
                }
            }
            rep.nontrivial(format!("live|{}|{:?}", f.name, segs));
        }
    }
}

// ------------------------------------------------------------------ totality (C09)

fn totality_mode(rep: &mut Report) {
    let base = Hello::real(MAIN_HOST, &["h2", "http/1.1"]).one_record();
    let mut inputs: Vec<(String, Vec<u8>)> = Vec::new();
    // all strings up to length 4 over the bytes the parser branches on
    let alpha = [0u8, 1, 3, 20, 21, 22, 23, 24, 0x40, 0x41, 0xff];
    inputs.push(("short".into(), vec![]));
    for a in alpha {
        inputs.push(("short".into(), vec![a]));
        for b in alpha {
            inputs.push(("short".into(), vec![a, b]));
            for c in alpha {
                inputs.push(("short".into(), vec![a, b, c]));
                for d in alpha {
                    inputs.push(("short".into(), vec![a, b, c, d]));
                }
            }
        }
    }
    // record headers with every content type and boundary lengths, short bodies over {0,1,0xff}
    for t in [20u8, 21, 22, 23, 24, 0, 99] {
        for len in [0u16, 1, 2, 3, 4, 5, 6, 38, 39, 16384, 16640, 16641, 65535] {
            for body in [vec![], vec![1u8], vec![1, 0, 0, 0], vec![1, 0, 0, 1, 0], vec![1, 0xff, 0xff, 0xff], vec![2, 0, 0, 0], vec![0; 6], vec![0xff; 40], vec![1, 0, 0, 34, 3, 3]] {
                let mut v = vec![t, 3, 1];
                v.extend_from_slice(&len.to_be_bytes());
                v.extend_from_slice(&body);
                inputs.push((format!("hdr{}", t), v));
            }
        }
    }
    // every truncation and byte mutations of a real hello; length fields +-1
    for n in 0..base.len() {
        inputs.push(("trunc".into(), base[..n].to_vec()));
    }
    for n in 0..base.len() {
        for m in [0u8, 0xff, base[n].wrapping_add(1), base[n].wrapping_sub(1), base[n] ^ 0x80] {
            let mut v = base.clone();
            v[n] = m;
            inputs.push(("mut".into(), v));
        }
    }
    let mut rng = seed().wrapping_mul(6364136223846793005).wrapping_add(1442695040888963407);
    for _ in 0..20000 {
        let mut v = base.clone();
        for _ in 0..3 {
            rng = rng.wrapping_mul(6364136223846793005).wrapping_add(1442695040888963407);
            let i = (rng >> 33) as usize % v.len();
            v[i] = (rng >> 17) as u8;
        }
        rng = rng.wrapping_mul(6364136223846793005).wrapping_add(1442695040888963407);
        let cut = (rng >> 33) as usize % (v.len() + 1);
        if rng & 1 == 0 {
            v.truncate(cut);
        }
        inputs.push(("rand".into(), v));
    }
    for (kind, v) in &inputs {
        rep.eval();
        let (k2, v2) = (kind.clone(), v.clone());
        watchdog::enter(move || (format!("c09:hello:{}:hang", k2), "extract_client_random did not return".into(), json!({"input_hex": hex(&v2)})));
        let r = catch(|| hello::extract_client_random(v));
        watchdog::leave();
        match r {
            Err(p) => rep.violation_with(format!("c09:hello:{}:panic", kind), format!("extract_client_random panicked: {}", p), || json!({"input_hex": hex(v)})),
            Ok(Extraction::Found(r)) => {
                // whatever the input, a reported value has 32 bytes and sits where the random field is
                if r.len() != 32 || v.len() < 43 || r.as_slice() != &v[11..43] {
                    rep.violation_with(format!("c09:hello:{}:value", kind), "a value that is not the random field of the first handshake message was reported", || json!({"input_hex": hex(v), "value": hex(&r)}));
                }
                rep.count("found", 1);
            }
            Ok(Extraction::NeedMoreData) => rep.count("needmore", 1),
            Ok(Extraction::NotFound) => rep.count("notfound", 1),
        }
    }
    rep.nontrivial("short");
    rep.nontrivial("hdr");
    rep.nontrivial("trunc");
    rep.nontrivial("mut");
    rep.nontrivial("rand");
    // the loop itself on garbage flights: must end, prebuffer bounded
    let rt = tokio::runtime::Builder::new_current_thread().enable_all().build().unwrap();
    let mut flights: Vec<(String, Vec<u8>)> = vec![
        ("zeros20k".into(), vec![0u8; 20000]),
        ("ff20k".into(), vec![0xffu8; 20000]),
        ("hs-maxlen-never-complete".into(), { let mut v = vec![22, 3, 1, 0x41, 0x00]; v.extend(vec![1u8; 20000]); v }),
        ("tiny".into(), vec![22]),
    ];
    flights.push(("hello-then-garbage".into(), { let mut v = base.clone(); v.extend(vec![0x17u8; 18000]); v }));
    // every flight whole and in segmentations whose first pieces are not multiples of the loop's read size
    // (lock-step: the loop sees exactly these pieces)
    let seg_sets: Vec<Vec<usize>> = vec![vec![], vec![1000], vec![1], vec![517], vec![1023, 1025], vec![5, 1000, 3]];
    let mut runs: Vec<(String, Vec<u8>, Vec<usize>)> = vec![];
    for (name, fl) in flights {
        for segs in &seg_sets {
            if segs.iter().sum::<usize>() >= fl.len() && !segs.is_empty() { continue; }
            runs.push((if segs.is_empty() { name.clone() } else { format!("{}:segs{:?}", name, segs) }, fl.clone(), segs.clone()));
        }
    }
    for (name, fl, segs) in runs {
        rep.eval();
        let n2 = name.clone();
        watchdog::enter(move || (format!("c09:hello:loop:{}:hang", n2), "prebuffer loop did not end".into(), json!({})));
        let obs = rt.block_on(run_peek(&fl, &segs, true, !segs.is_empty()));
        watchdog::leave();
        let name = name.split(":segs").next().unwrap().to_string() + if segs.is_empty() { "" } else { ":misaligned" };
        match obs {
            Err(e) => rep.violation_with(format!("c09:hello:loop:{}:stuck", name), format!("prebuffer loop on garbage: {}", e), || json!({"flight": name, "len": fl.len()})),
            Ok(o) => {
                if o.pre > 16 * 1024 {
                    rep.violation_with(format!("c09:hello:loop:{}:cap", name), format!("prebuffer grew to {}", o.pre), || json!({"flight": name}));
                }
                if o.got != fl {
                    rep.violation_with(format!("c09:hello:loop:{}:transparency", name), "bytes lost or changed behind the peek", || json!({"flight": name, "got": o.got.len(), "sent": fl.len()}));
                }
            }
        }
    }
}

fn main() {
    quiet_panics();
    logcap::install();
    let out_path = arg("--out").expect("--out");
    let mode = arg_or("--mode", "replay");
    let thorough = tier_thorough();
    let mut rep = Report::new(&format!("c12.{}", mode));
    watchdog::arm(&out_path, Duration::from_secs(300));
    match mode.as_str() {
        "shapes" => {
            let mut lines = Vec::new();
            for n in ["min", "typ", "long"] {
                let (sni, alpn) = base_params(n);
                let (a, b) = (Hello::real(sni, &alpn), Hello::real(sni, &alpn));
                if a.msg.len() != b.msg.len() {
                    tool_error("the size of the real ClientHello is not deterministic");
                }
                lines.push(json!({"name": n, "m": a.msg.len()}).to_string());
                rep.sample(json!({"base": n, "sni_len": sni.len(), "alpn": alpn, "handshake_message_len": a.msg.len()}));
            }
            std::fs::write(arg("--shapes-out").expect("--shapes-out"), lines.join("\n") + "\n").unwrap();
        }
        "replay" => {
            let flights = load(&arg("--vectors").expect("--vectors"));
            rep.count("tlc_flights", flights.len() as u64);
            for f in &flights {
                prefixes(&mut rep, f, thorough);
            }
            socket_scenarios(&mut rep, &flights, thorough, arg("--trace-out"));
            let dir = format!("{}.d", out_path);
            let _ = std::fs::create_dir_all(&dir);
            let cert = write_cert(&dir);
            live_mode(&mut rep, &flights, &cert);
            let _ = std::fs::remove_dir_all(&dir);
        }
        "totality" => totality_mode(&mut rep),
        m => tool_error(&format!("unknown mode {}", m)),
    }
    rep.finish(&out_path)
}
