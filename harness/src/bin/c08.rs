//! C08 — HTTP/1.1 transport: segmentation invariance and freedom from spinning.
//!
//! The real `Http1Codec` runs on an in-memory transport; the future that drives it
//! (`listen()` in a loop, exactly what `HttpDownstream`/`Tunnel` do) is polled BY HAND with a
//! flag waker on a current-thread runtime with a paused clock, and only when it has been woken
//! (as an executor would), so a lost wake-up shows as a stall and a self-wake without progress
//! as a spin. A poll that does not return is caught by the wall-clock watchdog.
//!
//! Jobs:
//!   (default)     replay every behaviour TLC generated from Http1.tla step by step, comparing
//!                 the observation the specification predicts before every environment event;
//!                 then every 1-/2-cut (3-cut, byte-at-a-time: thorough) byte position of the
//!                 named heads of TLC's head table against the outcome TLC's `decide` predicts
//!   --totality    C09: truncated / mutated / short heads under catch + watchdog
//!
//! The expected values (head bytes, request view, verdict, thresholds, response bytes,
//! per-step observations) all come from TLC's output (`HEAD` and `BEH` lines).

use bytes::Bytes;
use serde_json::{json, Value};
use std::collections::{BTreeMap, HashMap, VecDeque};
use std::future::Future;
use std::io;
use std::net::SocketAddr;
use std::pin::Pin;
use std::sync::atomic::{AtomicBool, AtomicU64, Ordering};
use std::sync::{Arc, Mutex};
use std::task::{Context, Poll, Wake, Waker};
use std::time::Duration;
use tokio::io::{AsyncRead, AsyncWrite, ReadBuf};
use tokio::sync::Notify;
use trusttunnel::settings::{Http1Settings, ListenProtocolSettings, Settings};
use trusttunnel::verif::http1::{self as door, VHttp1Codec, VRequest, VRespond, VStream};
use trusttunnel::verif::pipe::{SinkOut, SourceOut, VData, VSink, VSource};
use ttv::*;

// ---------------------------------------------------------------------------------------------
// in-memory transport

#[derive(Default)]
struct WireState {
    inq: VecDeque<u8>,
    eof: bool,
    rwaker: Option<Waker>,
    consumed: usize,
    max_read: usize,
    out: Vec<u8>,
    shut: bool,
    write_after_shut: bool,
    io_ops: u64,
    /// > 0: a write takes at most this many bytes, and every other call is Pending (+ wake)
    wcap: usize,
    wtoggle: bool,
    /// Some(b): the client accepts b more bytes, then writes are Pending until the budget is raised
    wbudget: Option<usize>,
    wwaker: Option<Waker>,
}

#[derive(Clone, Default)]
struct Wire(Arc<Mutex<WireState>>);

impl AsyncRead for Wire {
    fn poll_read(self: Pin<&mut Self>, cx: &mut Context<'_>, buf: &mut ReadBuf<'_>) -> Poll<io::Result<()>> {
        let mut g = self.0.lock().unwrap();
        if !g.inq.is_empty() {
            let n = g.inq.len().min(buf.remaining());
            for _ in 0..n {
                let b = g.inq.pop_front().unwrap();
                buf.put_slice(&[b]);
            }
            g.consumed += n;
            g.max_read = g.max_read.max(n);
            g.io_ops += 1;
            return Poll::Ready(Ok(()));
        }
        if g.eof {
            g.io_ops += 1;
            return Poll::Ready(Ok(()));
        }
        g.rwaker = Some(cx.waker().clone());
        Poll::Pending
    }
}

impl AsyncWrite for Wire {
    fn poll_write(self: Pin<&mut Self>, cx: &mut Context<'_>, data: &[u8]) -> Poll<io::Result<usize>> {
        let mut g = self.0.lock().unwrap();
        if g.shut {
            g.write_after_shut = true;
        }
        let mut n = data.len();
        if let Some(b) = g.wbudget {
            if b == 0 {
                g.wwaker = Some(cx.waker().clone());
                return Poll::Pending;
            }
            n = n.min(b);
            g.wbudget = Some(b - n);
        }
        if g.wcap > 0 {
            g.wtoggle = !g.wtoggle;
            if g.wtoggle {
                cx.waker().wake_by_ref();
                return Poll::Pending;
            }
            n = n.min(g.wcap);
        }
        g.out.extend_from_slice(&data[..n]);
        g.io_ops += 1;
        Poll::Ready(Ok(n))
    }

    fn poll_flush(self: Pin<&mut Self>, _cx: &mut Context<'_>) -> Poll<io::Result<()>> {
        Poll::Ready(Ok(()))
    }

    fn poll_shutdown(self: Pin<&mut Self>, _cx: &mut Context<'_>) -> Poll<io::Result<()>> {
        let mut g = self.0.lock().unwrap();
        g.shut = true;
        g.io_ops += 1;
        Poll::Ready(Ok(()))
    }
}

struct Flag(AtomicBool);

impl Wake for Flag {
    fn wake(self: Arc<Self>) {
        self.0.store(true, Ordering::SeqCst);
    }
    fn wake_by_ref(self: &Arc<Self>) {
        self.0.store(true, Ordering::SeqCst);
    }
}

// ---------------------------------------------------------------------------------------------
// the session under test

#[derive(Default)]
struct Sess {
    /// the caller drops a pending listen() and calls it again on `resume`
    cancel: Arc<Notify>,
    resume: Arc<Notify>,
    stream: Option<VStream>,
    produced: u64,
    /// None while running
    res: Option<Result<(), String>>,
}

/// What `HttpDownstream::listen` + `Tunnel::listen` do with the codec: call `listen()` again
/// after every stream, stop on `None`/error, and on the endpoint's shutdown drop the pending
/// `listen()` and call `graceful_shutdown()`.
async fn session(mut codec: VHttp1Codec, sh: Arc<Mutex<Sess>>, stop: Arc<Notify>) {
    let (cancel, resume) = { let g = sh.lock().unwrap(); (g.cancel.clone(), g.resume.clone()) };
    let mut idle = false;
    loop {
        if idle {
            // listen() was dropped: nothing polls the codec until the caller comes back
            tokio::select! {
                biased;
                _ = stop.notified() => {
                    let r = codec.graceful_shutdown().await;
                    sh.lock().unwrap().res = Some(r.map_err(|e| e.to_string()));
                    break;
                }
                _ = resume.notified() => { idle = false; continue; }
            }
        }
        tokio::select! {
            biased;
            _ = stop.notified() => {
                let r = codec.graceful_shutdown().await;
                sh.lock().unwrap().res = Some(r.map_err(|e| e.to_string()));
                break;
            }
            _ = cancel.notified() => { idle = true; continue; }
            r = codec.listen() => match r {
                Ok(Some(s)) => {
                    let mut g = sh.lock().unwrap();
                    g.stream = Some(s);
                    g.produced += 1;
                }
                Ok(None) => {
                    sh.lock().unwrap().res = Some(Ok(()));
                    break;
                }
                Err(e) => {
                    sh.lock().unwrap().res = Some(Err(e.to_string()));
                    break;
                }
            }
        }
    }
}

#[derive(Debug, Clone, PartialEq, Eq)]
struct Obs {
    req: bool,
    res: &'static str,
    rd: usize,
    up: usize,
    tx: Vec<u8>,
    shut: bool,
    /// iterations of the listen loop that ran wait_read so far (hook H1Take)
    it: usize,
}

impl Obs {
    fn json(&self) -> Value {
        json!({"req": if self.req { "some" } else { "none" }, "res": self.res, "rd": self.rd, "up": self.up,
               "tx": String::from_utf8_lossy(&self.tx), "shut": self.shut, "it": self.it})
    }
}

#[derive(Debug)]
enum Trouble {
    /// the future keeps waking itself without any progress
    Spin(u64),
    Panic(String),
    /// an operation on the stream's ends failed / behaved against the channel contract
    Op(String),
}

enum UpRes {
    Chunk(Vec<u8>),
    Eof,
    Pending,
    Err(String),
}

struct Sim {
    wire: Wire,
    sess: Arc<Mutex<Sess>>,
    stop: Arc<Notify>,
    fut: Option<Pin<Box<dyn Future<Output = ()>>>>,
    flag: Arc<Flag>,
    upflag: Arc<Flag>,
    started: bool,
    request: Option<VRequest>,
    source: Option<SourceOut>,
    respond: Option<VRespond>,
    sink: Option<SinkOut>,
    up: Vec<u8>,
    polls: u64,
    max_polls_per_event: u64,
    takes: usize,
    max_takes_per_event: usize,
}

fn settings() -> Arc<Settings> {
    Arc::new(
        Settings::builder()
            .listen_address("127.0.0.1:0")
            .unwrap()
            .listen_protocols(ListenProtocolSettings {
                http1: Some(Http1Settings::builder().build()),
                http2: None,
                quic: None,
            })
            .build()
            .expect("settings"),
    )
}

/// the same with a documented non-default `listen_protocols.http1.upload_buffer_size` (settable through the settings file only)
fn settings_small_upload_buffer() -> Arc<Settings> {
    Arc::new(toml::from_str::<Settings>("listen_address = \"127.0.0.1:0\"\n[listen_protocols]\n[listen_protocols.http1]\nupload_buffer_size = 2\n").expect("settings with a small upload buffer"))
}

const PEER: &str = "192.0.2.7:40123";

impl Sim {
    fn new(st: &Arc<Settings>) -> Sim {
        let wire = Wire::default();
        let sess = Arc::new(Mutex::new(Sess::default()));
        let stop = Arc::new(Notify::new());
        let peer: SocketAddr = PEER.parse().unwrap();
        let codec = VHttp1Codec::new(st.clone(), wire.clone(), peer);
        let fut = tokio::task::unconstrained(session(codec, sess.clone(), stop.clone()));
        Sim {
            wire,
            sess,
            stop,
            fut: Some(Box::pin(fut)),
            flag: Arc::new(Flag(AtomicBool::new(false))),
            upflag: Arc::new(Flag(AtomicBool::new(false))),
            started: false,
            request: None,
            source: None,
            respond: None,
            sink: None,
            up: Vec::new(),
            polls: 0,
            max_polls_per_event: 0,
            takes: 0,
            max_takes_per_event: 0,
        }
    }

    fn stamp(&self) -> (u64, u64, bool) {
        let io = self.wire.0.lock().unwrap().io_ops;
        let g = self.sess.lock().unwrap();
        (io, g.produced, g.res.is_some())
    }

    /// Poll the session while it has been woken (always once at the start).
    fn pump(&mut self) -> Result<(), Trouble> {
        let mut idle = 0u64;
        let mut n = 0u64;
        loop {
            if self.fut.is_none() {
                break;
            }
            let woken = self.flag.0.swap(false, Ordering::SeqCst);
            if !woken && self.started {
                break;
            }
            self.started = true;
            let before = self.stamp();
            let waker = Waker::from(self.flag.clone());
            let mut cx = Context::from_waker(&waker);
            self.polls += 1;
            n += 1;
            let fut = self.fut.as_mut().unwrap();
            match catch(|| fut.as_mut().poll(&mut cx)) {
                Err(p) => {
                    // the future is poisoned
                    std::mem::forget(self.fut.take());
                    return Err(Trouble::Panic(p));
                }
                Ok(Poll::Ready(())) => {
                    self.fut = None;
                }
                Ok(Poll::Pending) => {}
            }
            self.take_stream();
            if self.stamp() == before {
                idle += 1;
                if idle > 16 {
                    return Err(Trouble::Spin(n));
                }
            } else {
                idle = 0;
            }
        }
        self.max_polls_per_event = self.max_polls_per_event.max(n);
        let t = trusttunnel::verif::drain_events().iter().filter(|l| l.contains("\"ev\":\"H1Take\"")).count();
        self.takes += t;
        self.max_takes_per_event = self.max_takes_per_event.max(t);
        Ok(())
    }

    fn take_stream(&mut self) {
        let s = self.sess.lock().unwrap().stream.take();
        if let Some(s) = s {
            self.request = Some(s.request.clone());
            let (src, rsp) = s.split();
            self.source = Some(src);
            self.respond = Some(rsp);
        }
    }

    fn res(&self) -> &'static str {
        match &self.sess.lock().unwrap().res {
            None => "run",
            Some(Ok(())) => "closed",
            Some(Err(_)) => "err",
        }
    }

    fn err_text(&self) -> String {
        match &self.sess.lock().unwrap().res {
            Some(Err(e)) => e.clone(),
            _ => String::new(),
        }
    }

    fn obs(&self) -> Obs {
        let req = {
            let s = self.sess.lock().unwrap();
            s.produced > 0
        };
        let res = self.res();
        let g = self.wire.0.lock().unwrap();
        Obs {
            req,
            res,
            rd: g.consumed,
            up: self.up.len(),
            tx: g.out.clone(),
            shut: g.shut,
            it: self.takes,
        }
    }

    fn deliver(&mut self, data: &[u8]) {
        let w = {
            let mut g = self.wire.0.lock().unwrap();
            g.inq.extend(data.iter().copied());
            g.rwaker.take()
        };
        if let Some(w) = w {
            w.wake();
        }
    }

    fn close(&mut self) {
        let w = {
            let mut g = self.wire.0.lock().unwrap();
            g.eof = true;
            g.rwaker.take()
        };
        if let Some(w) = w {
            w.wake();
        }
    }

    /// one poll of `StreamSource::read`
    fn upread(&mut self) -> UpRes {
        let Some(src) = self.source.as_mut() else { return UpRes::Err("no source".into()) };
        let waker = Waker::from(self.upflag.clone());
        let mut cx = Context::from_waker(&waker);
        let r = {
            // (unconstrained: the cooperative budget of the surrounding block_on poll must not
            // turn a ready channel into Pending)
            let mut f = Box::pin(tokio::task::unconstrained(src.read()));
            match catch(|| f.as_mut().poll(&mut cx)) {
                Err(p) => return UpRes::Err(format!("panic: {}", p)),
                Ok(x) => x,
            }
        };
        match r {
            Poll::Pending => UpRes::Pending,
            Poll::Ready(Err(e)) => UpRes::Err(e.to_string()),
            Poll::Ready(Ok(VData::Eof)) => UpRes::Eof,
            Poll::Ready(Ok(VData::Chunk(b))) => {
                let _ = src.consume(b.len());
                self.up.extend_from_slice(&b);
                UpRes::Chunk(b.to_vec())
            }
        }
    }

    /// the consumer reads whatever it can get, the codec is driven in between
    fn drain(&mut self) -> Result<(), Trouble> {
        loop {
            if self.source.is_none() {
                return Ok(());
            }
            match self.upread() {
                UpRes::Chunk(_) => self.pump()?,
                UpRes::Err(e) => return Err(Trouble::Op(format!("upload read failed: {}", e))),
                _ => return Ok(()),
            }
        }
    }

    fn respond_ok(&mut self, eof: bool) -> Result<(), Trouble> {
        let r = self.respond.take().ok_or_else(|| Trouble::Op("no pending responder".into()))?;
        match catch(|| r.send_ok_response(eof)) {
            Err(p) => Err(Trouble::Panic(p)),
            Ok(Err(e)) => Err(Trouble::Op(format!("send_ok_response failed: {}", e))),
            Ok(Ok(s)) => {
                self.sink = Some(s);
                Ok(())
            }
        }
    }

    fn respond_intermediate(&mut self) -> Result<(), Trouble> {
        let r = self.respond.as_ref().ok_or_else(|| Trouble::Op("no pending responder".into()))?;
        match catch(|| r.send_intermediate_response(100, &[])) {
            Err(p) => Err(Trouble::Panic(p)),
            Ok(Err(e)) => Err(Trouble::Op(format!("send_intermediate_response failed: {}", e))),
            Ok(Ok(())) => Ok(()),
        }
    }

    fn respond_bad(&mut self) -> Result<(), Trouble> {
        let r = self.respond.take().ok_or_else(|| Trouble::Op("no pending responder".into()))?;
        match catch(|| r.send_bad_response(502, vec![])) {
            Err(p) => Err(Trouble::Panic(p)),
            Ok(Err(e)) => Err(Trouble::Op(format!("send_bad_response failed: {}", e))),
            Ok(Ok(())) => Ok(()),
        }
    }

    fn down_write(&mut self, data: &[u8]) -> Result<(), Trouble> {
        let s = self.sink.as_mut().ok_or_else(|| Trouble::Op("no sink".into()))?;
        match catch(|| s.write(Bytes::copy_from_slice(data))) {
            Err(p) => Err(Trouble::Panic(p)),
            Ok(Err(e)) => Err(Trouble::Op(format!("sink write failed: {}", e))),
            Ok(Ok(rest)) if rest.is_empty() => Ok(()),
            Ok(Ok(rest)) => Err(Trouble::Op(format!("sink refused {} of {} bytes although the download channel must be empty", rest.len(), data.len()))),
        }
    }

    fn down_eof(&mut self) -> Result<(), Trouble> {
        let s = self.sink.as_mut().ok_or_else(|| Trouble::Op("no sink".into()))?;
        s.eof().map_err(|e| Trouble::Op(format!("sink eof failed: {}", e)))
    }

    fn finish(mut self) {
        // a poisoned future has been forgotten already; everything else drops normally
        self.fut.take();
    }
}

// ---------------------------------------------------------------------------------------------
// the download path under back-pressure, dropped listen() futures and graceful shutdown
// (Http1Down.tla): every behaviour TLC printed is replayed on the real codec

fn down_byte(c: usize, o: usize) -> u8 {
    (c * 16 + o) as u8
}

async fn replay_down(rep: &mut Report, st: &Arc<Settings>, file: &str) {
    for v in read_tagged(file, "H1D") {
        rep.eval();
        let chunks: Vec<usize> = v["chunks"].as_array().unwrap().iter().map(|x| x.as_u64().unwrap() as usize).collect();
        let hist = v["hist"].as_array().unwrap();
        let evname = |e: &Value| -> String { if e.is_array() { format!("Open{}", e[1]) } else { e.as_str().unwrap().to_string() } };
        let names: Vec<String> = hist.iter().map(|h| evname(&h["ev"])).collect();
        let ncancel = names.iter().filter(|n| *n == "Cancel").count();
        rep.nontrivial(names.join(","));
        let all: Vec<u8> = (1..=chunks.len()).flat_map(|c| (1..=chunks[c - 1]).map(move |o| down_byte(c, o))).collect();
        let class = format!("{}{}", if ncancel > 0 { "cancel" } else { "plain" }, if names.iter().position(|n| n == "Shutdown").map(|i| names[..i].iter().filter(|n| *n == "SinkWrite").count() >= 2).unwrap_or(false) { ":two-chunks-at-shutdown" } else { "" });
        let mut sim = Sim::new(st);
        let detail = |step: usize, what: String, got: &[u8]| json!({"kind": "http1-download", "behaviour": v, "step": step, "what": what, "client_received": got.iter().map(|b| format!("{}.{}", b / 16, b % 16)).collect::<Vec<_>>()});
        let fail = |rep: &mut Report, sig: &str, step: usize, what: String, got: &[u8]| {
            rep.violation_with(format!("http1-down:{}:{}", sig, class), what.clone(), || detail(step, what.clone(), got));
        };
        // establish: CONNECT, 200
        let r: Result<usize, Trouble> = (|| {
            sim.pump()?;
            sim.deliver(b"CONNECT example.org:443 HTTP/1.1\r\nHost: example.org:443\r\n\r\n");
            sim.pump()?;
            sim.drain()?;
            sim.respond_ok(false)?;
            sim.pump()?;
            Ok(sim.wire.0.lock().unwrap().out.len())
        })();
        let h0 = match r {
            Ok(n) if n > 0 => n,
            Ok(_) => { fail(rep, "setup", 0, "no response head was written".into(), &[]); sim.finish(); continue; }
            Err(t) => { fail(rep, "setup", 0, match t { Trouble::Spin(n) => format!("spin {}", n), Trouble::Panic(p) => format!("panic {}", p), Trouble::Op(e) => e }, &[]); sim.finish(); continue; }
        };
        sim.wire.0.lock().unwrap().wbudget = Some(0);
        let mut written = 0usize;
        let mut bad = false;
        for (i, h) in hist.iter().enumerate() {
            let got: Vec<u8> = sim.wire.0.lock().unwrap().out[h0..].to_vec();
            let want = h["tx"].as_u64().unwrap() as usize;
            if got.len() != want || got[..] != all[..want.min(all.len())] {
                fail(rep, if got.len() < want || !all.starts_with(&got) { "lost" } else { "ahead" }, i,
                     format!("before step {} ({}) the client has received {} download bytes, Http1Down.tla says {}{}", i, names[i], got.len(), want, if all.starts_with(&got) { "" } else { "; they are not a prefix of what the sink wrote (gap / reordering)" }), &got);
                bad = true;
                break;
            }
            let r: Result<(), Trouble> = (|| {
                match names[i].as_str() {
                    "SinkWrite" => { written += 1; let data: Vec<u8> = (1..=chunks[written - 1]).map(|o| down_byte(written, o)).collect(); sim.down_write(&data)?; }
                    "SinkWriteRefused" => {
                        // the channel holds one chunk: the next one must be handed back whole
                        let data: Vec<u8> = (1..=chunks[written]).map(|o| down_byte(written + 1, o)).collect();
                        let snk = sim.sink.as_mut().ok_or_else(|| Trouble::Op("no sink".into()))?;
                        match catch(|| snk.write(Bytes::copy_from_slice(&data))) {
                            Err(p) => return Err(Trouble::Panic(p)),
                            Ok(Err(e)) => return Err(Trouble::Op(format!("sink write failed: {}", e))),
                            Ok(Ok(rest)) if rest.len() == data.len() => {}
                            Ok(Ok(rest)) => return Err(Trouble::Op(format!("the sink took {} bytes of a chunk although a chunk is already queued: the download channel holds more than the one chunk graceful_shutdown drains", data.len() - rest.len()))),
                        }
                    }
                    "Cancel" => sim.sess.lock().unwrap().cancel.notify_one(),
                    "Relisten" => sim.sess.lock().unwrap().resume.notify_one(),
                    "Shutdown" => sim.stop.notify_one(),
                    _ => {
                        let k = h["ev"][1].as_u64().unwrap() as usize;
                        let w = { let mut g = sim.wire.0.lock().unwrap(); g.wbudget = Some(g.wbudget.unwrap_or(0) + k); g.wwaker.take() };
                        if let Some(w) = w { w.wake(); }
                    }
                }
                // the notifications wake the session through its own waker only once it is polled
                sim.flag.0.store(true, Ordering::SeqCst);
                sim.pump()
            })();
            if let Err(t) = r {
                let what = match t { Trouble::Spin(n) => format!("the session woke itself {} times without progress", n), Trouble::Panic(p) => format!("panic: {}", p), Trouble::Op(e) => e };
                fail(rep, "op", i, format!("step {} ({}): {}", i, names[i], what), &got);
                bad = true;
                break;
            }
        }
        if !bad {
            let got: Vec<u8> = sim.wire.0.lock().unwrap().out[h0..].to_vec();
            let want = v["tx"].as_u64().unwrap() as usize;
            let shut = sim.wire.0.lock().unwrap().shut;
            if got.len() != want || got[..] != all[..want.min(all.len())] {
                fail(rep, if all.starts_with(&got) { "lost-at-close" } else { "gap-at-close" }, hist.len(),
                     format!("after the graceful shutdown the client has received {} download bytes, Http1Down.tla says {} (everything queued when the shutdown began){}", got.len(), want, if all.starts_with(&got) { "" } else { "; not a prefix of what the sink wrote" }), &got);
            } else if sim.res() != "closed" || !shut {
                fail(rep, "not-closed", hist.len(), format!("the session did not end with a flushed, shut-down transport: result {} {}, transport shut down: {}", sim.res(), sim.err_text(), shut), &got);
            }
        }
        sim.finish();
    }
}

// ---------------------------------------------------------------------------------------------
// TLC's head table

#[derive(Debug, Clone, PartialEq, Eq)]
struct View {
    method: String,
    version: u8,
    scheme: Option<String>,
    authority: Option<String>,
    path: Option<String>,
    headers: Vec<(String, Vec<u8>)>,
}

struct HeadInfo {
    name: String,
    named: bool,
    text: String,
    bytes: Vec<u8>,
    hlen: usize,
    verdict: String,
    may: usize,
    must: usize,
    out: String,
    view: Option<View>,
    resp: HashMap<String, Vec<u8>>,
}

/// "^" is CR, "~" is LF, "`" is NUL in the strings of the specification
fn materialise(s: &str) -> Vec<u8> {
    s.bytes()
        .map(|b| match b {
            b'^' => b'\r',
            b'~' => b'\n',
            b'`' => 0,
            x => x,
        })
        .collect()
}

fn opt(s: &str) -> Option<String> {
    if s.is_empty() { None } else { Some(s.to_string()) }
}

fn norm_headers(mut h: Vec<(String, Vec<u8>)>) -> Vec<(String, Vec<u8>)> {
    for x in h.iter_mut() {
        x.0 = x.0.to_ascii_lowercase();
    }
    h.sort();
    h
}

fn view_of_spec(v: &Value) -> Option<View> {
    if v.get("none").is_some() {
        return None;
    }
    Some(View {
        method: v["method"].as_str().unwrap().to_string(),
        version: v["version"].as_u64().unwrap() as u8,
        scheme: opt(v["scheme"].as_str().unwrap()),
        authority: opt(v["authority"].as_str().unwrap()),
        path: opt(v["path"].as_str().unwrap()),
        headers: norm_headers(
            v["headers"].as_array().map(|a| a.iter().map(|h| (h["n"].as_str().unwrap().to_string(), materialise(h["v"].as_str().unwrap()))).collect()).unwrap_or_default(),
        ),
    })
}

fn view_of_real(r: &VRequest) -> View {
    View {
        method: r.method.clone(),
        version: r.version_minor,
        scheme: r.scheme.clone(),
        authority: r.authority.clone(),
        path: r.path_and_query.clone(),
        headers: norm_headers(r.headers.clone()),
    }
}

fn view_json(v: &View) -> Value {
    json!({"method": v.method, "version": v.version, "scheme": v.scheme, "authority": v.authority, "path": v.path,
           "headers": v.headers.iter().map(|(n, x)| json!([n, String::from_utf8_lossy(x)])).collect::<Vec<_>>()})
}

fn load_heads(path: &str) -> (BTreeMap<String, Arc<HeadInfo>>, usize, usize) {
    let mut m = BTreeMap::new();
    let (mut maxhead, mut maxheaders) = (0, 0);
    for h in read_tagged(path, "HEAD") {
        let text = h["bytes"].as_str().unwrap().to_string();
        let bytes = materialise(&text);
        let hlen = h["hlen"].as_u64().unwrap() as usize;
        assert_eq!(bytes.len(), hlen, "head table: length");
        maxhead = h["maxhead"].as_u64().unwrap() as usize;
        maxheaders = h["maxheaders"].as_u64().unwrap() as usize;
        let mut resp = HashMap::new();
        for (k, v) in h["resp"].as_object().unwrap() {
            resp.insert(k.clone(), materialise(v.as_str().unwrap()));
        }
        let info = HeadInfo {
            name: h["name"].as_str().unwrap().to_string(),
            named: h["named"].as_bool().unwrap(),
            text,
            bytes,
            hlen,
            verdict: h["verdict"].as_str().unwrap().to_string(),
            may: h["decide"]["may"].as_u64().unwrap() as usize,
            must: h["decide"]["must"].as_u64().unwrap() as usize,
            out: h["decide"]["out"].as_str().unwrap().to_string(),
            view: view_of_spec(&h["view"]),
            resp,
        };
        m.insert(info.name.clone(), Arc::new(info));
    }
    (m, maxhead, maxheaders)
}

fn payload_byte(i: usize) -> u8 {
    b'0' + (i % 75) as u8
}

fn payload(n: usize) -> Vec<u8> {
    (1..=n).map(payload_byte).collect()
}

fn down_chunk(k: usize) -> Vec<u8> {
    format!("<down-{}>", k).into_bytes()
}

/// where the pieces fall relative to the head: the failing-input class of a signature
fn cut_class(hlen: usize, total: usize, pieces: &[usize]) -> &'static str {
    if total < hlen {
        return "truncated-head";
    }
    let mut pos = 0;
    let (mut in_head, mut after) = (false, false);
    for p in pieces {
        pos += p;
        if pos >= total {
            break;
        }
        if pos < hlen {
            in_head = true;
        } else {
            after = true;
        }
    }
    match (in_head, after) {
        (false, false) => "one-piece",
        (true, false) => "head-split",
        (false, true) => "tail-split",
        (true, true) => "head-and-tail-split",
    }
}

fn trouble_sig(prefix: &str, t: &Trouble, h: &HeadInfo, class: &str) -> (String, String) {
    match t {
        Trouble::Spin(n) => (format!("{}:spin:{}:{}", prefix, h.verdict, class),
                             format!("the listen future woke itself {} times in a row without reading, writing or finishing", n)),
        Trouble::Panic(p) => (format!("{}:panic:{}:{}", prefix, h.verdict, class), format!("panic in the codec: {}", p)),
        Trouble::Op(e) => (format!("{}:op:{}:{}", prefix, h.verdict, class), e.clone()),
    }
}

// ---------------------------------------------------------------------------------------------
// replay of TLC behaviours

struct Beh {
    sc: Value,
    evs: Vec<String>,
    pres: Vec<Value>,
    fin: Value,
}

fn spec_tx(h: &HeadInfo, items: &Value) -> Vec<u8> {
    let mut out = Vec::new();
    let mut k = 0;
    for it in items.as_array().map(|a| a.as_slice()).unwrap_or(&[]) {
        let it = it.as_str().unwrap();
        if it == "d" {
            k += 1;
            out.extend(down_chunk(k));
        } else {
            out.extend(h.resp[it].iter());
        }
    }
    out
}

fn lower_header_names(b: &[u8]) -> Vec<u8> {
    // status lines (the first line, and a line that follows an empty line) untouched;
    // header names (up to the colon) lower-cased
    let mut out = Vec::with_capacity(b.len());
    let mut line_start = true;
    let mut status_line = true;
    let mut in_name = false;
    let mut line_len = 0usize;
    for &c in b {
        if line_start {
            in_name = !status_line;
            line_start = false;
            line_len = 0;
        }
        if c == b':' {
            in_name = false;
        }
        out.push(if in_name { c.to_ascii_lowercase() } else { c });
        if c == b'\n' {
            // an empty line ends a head: what follows is a status line (or payload)
            status_line = line_len <= 1;
            line_start = true;
        } else {
            line_len += 1;
        }
    }
    out
}

fn spec_obs(h: &HeadInfo, o: &Value) -> Obs {
    Obs {
        req: o["req"].as_str().unwrap() == "some",
        res: match o["res"].as_str().unwrap() {
            "run" => "run",
            "closed" => "closed",
            _ => "err",
        },
        rd: o["rd"].as_u64().unwrap() as usize,
        up: o["up"].as_u64().unwrap() as usize,
        tx: spec_tx(h, &o["tx"]),
        shut: o["shut"].as_bool().unwrap(),
        it: o["it"].as_u64().unwrap() as usize,
    }
}

/// Execute one environment-event sequence on the real codec. Returns the observations made
/// before every event and at the end, the chunk lengths the upload reads returned, or the
/// trouble met at step i.
struct RealRun {
    pres: Vec<Obs>,
    fin: Option<Obs>,
    upreads: Vec<(usize, String)>,
    fin_upq: String,
    trouble: Option<(usize, Trouble)>,
    view: Option<View>,
    peer_ok: bool,
    polls: u64,
    max_polls: u64,
}

async fn run_events(st: &Arc<Settings>, h: &HeadInfo, sc: &Value, evs: &[String]) -> RealRun {
    let total = sc["N"].as_u64().unwrap() as usize;
    let mut stream = h.bytes.clone();
    stream.extend(payload(sc["P"].as_u64().unwrap() as usize));
    stream.truncate(total);
    let cuts: Vec<usize> = sc["cuts"].as_array().map(|a| a.iter().map(|x| x.as_u64().unwrap() as usize).collect()).unwrap_or_default();
    let mut cut_i = 0;
    let mut pos = 0;
    let mut nw = 0;
    let mut sim = Sim::new(st);
    let mut rr = RealRun { pres: Vec::new(), fin: None, upreads: Vec::new(), fin_upq: String::new(), trouble: None, view: None, peer_ok: true, polls: 0, max_polls: 0 };
    if let Err(t) = sim.pump() {
        rr.trouble = Some((0, t));
        sim.finish();
        return rr;
    }
    for (i, ev) in evs.iter().enumerate() {
        rr.pres.push(sim.obs());
        let r: Result<(), Trouble> = match ev.as_str() {
            "deliver" => {
                let n = if cut_i < cuts.len() { cuts[cut_i].min(total - pos) } else { total - pos };
                cut_i += 1;
                sim.deliver(&stream[pos..pos + n]);
                pos += n;
                Ok(())
            }
            "close" => {
                sim.close();
                Ok(())
            }
            "delay" => {
                tokio::time::advance(Duration::from_millis(37)).await;
                Ok(())
            }
            "upread" => {
                let want_from = sim.up.len();
                match sim.upread() {
                    UpRes::Chunk(b) => {
                        let ok = b.iter().enumerate().all(|(k, x)| *x == payload_byte(want_from + k + 1));
                        rr.upreads.push((b.len(), if ok { "ok".into() } else { "wrong-bytes".into() }));
                        Ok(())
                    }
                    UpRes::Pending => {
                        rr.upreads.push((0, "pending".into()));
                        Ok(())
                    }
                    UpRes::Eof => {
                        rr.upreads.push((0, "eof".into()));
                        Ok(())
                    }
                    UpRes::Err(e) => Err(Trouble::Op(format!("upload read: {}", e))),
                }
            }
            "i100" => sim.respond_intermediate(),
            "ok" => sim.respond_ok(false),
            "okeof" => sim.respond_ok(true),
            "bad" => sim.respond_bad(),
            "w" => {
                nw += 1;
                sim.down_write(&down_chunk(nw))
            }
            "eof" => sim.down_eof(),
            "drop" => {
                sim.sink = None;
                sim.respond = None;
                Ok(())
            }
            "srcdrop" => {
                sim.source = None;
                Ok(())
            }
            "shutdown" => {
                sim.stop.notify_one();
                Ok(())
            }
            x => panic!("unknown event {}", x),
        };
        let r = r.and_then(|()| sim.pump());
        if let Err(t) = r {
            rr.trouble = Some((i, t));
            break;
        }
    }
    if rr.trouble.is_none() {
        rr.fin = Some(sim.obs());
        // what is queued at the upload side at the end
        rr.fin_upq = if sim.source.is_some() {
            match sim.upread() {
                UpRes::Chunk(b) => format!("chunk:{}", b.len()),
                UpRes::Pending => "pending".into(),
                UpRes::Eof => "eof".into(),
                UpRes::Err(e) => format!("err:{}", e),
            }
        } else {
            "nosource".into()
        };
    }
    rr.view = sim.request.as_ref().map(view_of_real);
    rr.polls = sim.polls;
    rr.max_polls = sim.max_polls_per_event;
    sim.finish();
    rr
}

/// does the real run agree with this behaviour of the specification?
fn matches(h: &HeadInfo, b: &Beh, rr: &RealRun) -> Result<(), (usize, String)> {
    if let Some((i, t)) = &rr.trouble {
        return Err((*i, format!("{:?}", t)));
    }
    let mut up_i = 0;
    for (i, pre) in b.pres.iter().enumerate() {
        let want = spec_obs(h, pre);
        let mut got = rr.pres[i].clone();
        got.tx = lower_header_names(&got.tx);
        if got != want {
            return Err((i, format!("before event {} ({}) observed {} but the specification has {}", i, b.evs[i], got.json(), want.json())));
        }
        if b.evs[i] == "upread" {
            let q = pre["upq"].as_u64().unwrap() as usize;
            let (n, what) = &rr.upreads[up_i];
            up_i += 1;
            if *n != q || what != "ok" {
                return Err((i, format!("upload read {} returned {} bytes ({}), the specification has a chunk of {} queued", up_i, n, what, q)));
            }
        }
    }
    let want = spec_obs(h, &b.fin);
    let mut got = rr.fin.clone().unwrap();
    got.tx = lower_header_names(&got.tx);
    if got != want {
        return Err((b.pres.len(), format!("at the end observed {} but the specification has {}", got.json(), want.json())));
    }
    let q = b.fin["upq"].as_u64().unwrap() as usize;
    let okq = if rr.fin_upq == "nosource" { true } else if q > 0 { rr.fin_upq == format!("chunk:{}", q) } else { !rr.fin_upq.starts_with("chunk:") && !rr.fin_upq.starts_with("err:") };
    if !okq {
        return Err((b.pres.len(), format!("at the end the upload side has {:?}, the specification has {} bytes queued", rr.fin_upq, q)));
    }
    Ok(())
}

async fn replay(rep: &mut Report, st: &Arc<Settings>, heads: &BTreeMap<String, Arc<HeadInfo>>, vectors: &str) {
    let mut groups: BTreeMap<String, Vec<Beh>> = BTreeMap::new();
    let mut n = 0u64;
    for b in read_tagged(vectors, "BEH") {
        n += 1;
        let hist = b["hist"].as_array().cloned().unwrap_or_default();
        let evs: Vec<String> = hist.iter().map(|e| e["ev"].as_str().unwrap().to_string()).collect();
        let key = format!("{}|{}", b["sc"], evs.join(","));
        let mut prev = 0;
        for o in hist.iter().map(|e| &e["pre"]).chain(std::iter::once(&b["final"])) {
            let it = o["it"].as_u64().unwrap();
            TLC_MAX_TAKES.fetch_max(it - prev, Ordering::SeqCst);
            prev = it;
        }
        groups.entry(key).or_default().push(Beh { sc: b["sc"].clone(), evs, pres: hist.iter().map(|e| e["pre"].clone()).collect(), fin: b["final"].clone() });
    }
    rep.count("tlc_behaviours_replayed", n);
    rep.count("tlc_event_sequences", groups.len() as u64);
    let mut max_polls = 0u64;
    for (_key, behs) in groups.iter() {
        let b0 = &behs[0];
        let h = heads[b0.sc["head"].as_str().unwrap()].clone();
        let total = b0.sc["N"].as_u64().unwrap() as usize;
        let cuts: Vec<usize> = b0.sc["cuts"].as_array().map(|a| a.iter().map(|x| x.as_u64().unwrap() as usize).collect()).unwrap_or_default();
        let class = cut_class(h.hlen, total, &cuts);
        {
            let (hh, sc, evs) = (h.clone(), b0.sc.clone(), b0.evs.clone());
            let class = class.to_string();
            watchdog::enter(move || {
                (format!("http1:hang:{}:{}", hh.verdict, class),
                 "a poll of the listen future did not return (busy loop inside one poll: the task never yields)".to_string(),
                 json!({"kind": "behaviour", "head": hh.name, "head_text": if hh.text.len() < 300 { hh.text.clone() } else { format!("{}...", &hh.text[..120]) }, "sc": sc, "events": evs}))
            });
        }
        logcap::set_scenario(&format!("c08:{}", h.name));
        let rr = run_events(st, &h, &b0.sc, &b0.evs).await;
        watchdog::leave();
        for e in &b0.evs {
            rep.count(&format!("ev_{}", e), 1);
        }
        rep.evals(behs.len() as u64);
        max_polls = max_polls.max(rr.max_polls);
        if !cuts.is_empty() || b0.evs.len() > 2 {
            rep.nontrivial(format!("{}|{:?}|{}", h.name, cuts, b0.evs.join(",")));
        }
        if rep.evaluations % 1499 < behs.len() as u64 {
            rep.sample(json!({"head": h.name, "sc": b0.sc, "events": b0.evs, "final": rr.fin.as_ref().map(|o| o.json()), "polls": rr.polls}));
        }
        let detail = |why: &str, step: usize| json!({"kind": "behaviour", "head": h.name, "head_text": h.text, "sc": b0.sc, "events": b0.evs, "step": step, "why": why,
                 "observed": rr.pres.iter().map(|o| o.json()).collect::<Vec<_>>(), "observed_final": rr.fin.as_ref().map(|o| o.json()),
                 "specification": behs.iter().take(3).map(|b| json!({"pre": b.pres, "final": b.fin})).collect::<Vec<_>>()});
        if let Some((i, t)) = &rr.trouble {
            let (sig, what) = trouble_sig("http1", t, &h, class);
            rep.violation_with(sig, what.clone(), || detail(&what, *i));
            continue;
        }
        // the request view, whenever one was produced
        if let Some(v) = &rr.view {
            if Some(v) != h.view.as_ref() {
                rep.violation_with(format!("http1:view:{}:{}", h.verdict, class), "the request handed out differs from the one the head means",
                    || json!({"kind": "behaviour", "head": h.name, "head_text": h.text, "sc": b0.sc, "observed": view_json(v), "specification": h.view.as_ref().map(view_json)}));
                continue;
            }
        }
        let mut first_err: Option<(usize, String)> = None;
        let mut ok = false;
        for b in behs {
            match matches(&h, b, &rr) {
                Ok(()) => {
                    ok = true;
                    break;
                }
                Err(e) => {
                    if first_err.as_ref().map(|f| f.0 < e.0).unwrap_or(true) {
                        first_err = Some(e);
                    }
                }
            }
        }
        if !ok {
            let (step, why) = first_err.unwrap();
            let evname = b0.evs.get(step.saturating_sub(1)).cloned().unwrap_or_else(|| "start".into());
            rep.violation_with(format!("http1:diverge:{}:{}:after-{}", h.verdict, class, evname), why.clone(), || detail(&why, step));
        }
    }
    rep.count("max_polls_per_event", max_polls);
    rep.count("tlc_max_iterations_per_event", TLC_MAX_TAKES.load(Ordering::SeqCst));
}

// ---------------------------------------------------------------------------------------------
// byte-position segmentations of the named heads

#[derive(Clone, Copy, PartialEq, Eq, Debug)]
enum Variant {
    Plain,
    Delays,
    Down,
    /// like Down, on a transport that takes 3 bytes per write and is not ready every other time
    SlowTx,
}

/// One segmentation of one head. Expected outcomes come from TLC's `decide` (may / must / out),
/// its view and its response bytes; rd = delivered and "upload = the bytes after the head"
/// are the specification's NoStall / BoundedHead / SamePayload at a quiescent point.
async fn run_segmentation(st: &Arc<Settings>, h: &HeadInfo, pay: &[u8], pieces: &[usize], var: Variant, maxhead: usize) -> Result<u64, (String, String, Value)> {
    let mut stream = h.bytes.clone();
    stream.extend_from_slice(pay);
    let total = stream.len();
    let class = cut_class(h.hlen, total, pieces);
    let fail = |what: &str, why: String, obs: Value| -> (String, String, Value) {
        (format!("http1:{}:{}:{}", what, h.verdict, class), why, obs)
    };
    let mut sim = Sim::new(st);
    if var == Variant::SlowTx {
        sim.wire.0.lock().unwrap().wcap = 3;
    }
    let tr = |t: Trouble| {
        let (sig, what) = trouble_sig("http1", &t, h, class);
        (sig, what, json!({}))
    };
    sim.pump().map_err(tr)?;
    let mut pos = 0;
    let mut i = 0;
    let mut responded = false;
    let mut nw = 0;
    let mut want_tx: Vec<u8> = Vec::new();
    let mut decided = false;
    while pos < total {
        let n = if i < pieces.len() { pieces[i].min(total - pos) } else { total - pos };
        i += 1;
        sim.deliver(&stream[pos..pos + n]);
        pos += n;
        sim.pump().map_err(tr)?;
        sim.drain().map_err(tr)?;
        if sim.respond.is_some() && !responded {
            // the request has just been handed out: it must be the one the head means
            let v = view_of_real(sim.request.as_ref().unwrap());
            if Some(&v) != h.view.as_ref() {
                return Err(fail("view", "the request handed out depends on the segmentation / differs from the one the head means".into(),
                    json!({"observed": view_json(&v), "specification": h.view.as_ref().map(view_json)})));
            }
            sim.respond_ok(false).map_err(tr)?;
            responded = true;
            want_tx.extend(h.resp["r200"].iter());
            sim.pump().map_err(tr)?;
            sim.drain().map_err(tr)?;
        }
        if var == Variant::Delays && pos < total {
            tokio::time::advance(Duration::from_millis(if i % 2 == 0 { 1 } else { 61_000 })).await;
            sim.pump().map_err(tr)?;
        }
        if matches!(var, Variant::Down | Variant::SlowTx) && responded && sim.res() == "run" {
            nw += 1;
            sim.down_write(&down_chunk(nw)).map_err(tr)?;
            want_tx.extend(down_chunk(nw));
            sim.pump().map_err(tr)?;
        }
        // status against TLC's thresholds
        let o = sim.obs();
        let status = if o.res == "err" { "err" }
            else if o.res == "closed" && lower_header_names(&o.tx) == h.resp["r417"] && !o.req { "closed417" }
            else if o.req { "request" }
            else if o.res == "closed" { "closed" }
            else { "pending" };
        let allowed: &[&str] = if pos < h.may { &["pending"] } else if pos < h.must { &["pending", h.out.as_str()] } else { &[h.out.as_str()] };
        // (`allowed` borrows h.out; compare by value)
        if !allowed.iter().any(|a| *a == status) {
            return Err(fail("status", format!("after {} of {} bytes the codec is in status {:?}; the specification allows {:?} (listen error: {:?})", pos, total, status, allowed, sim.err_text()), o.json()));
        }
        if status == h.out {
            decided = true;
        }
        match status {
            "pending" => {
                if o.rd != pos || !o.tx.is_empty() {
                    return Err(fail("stall", format!("waiting for the rest of the head after {} bytes but {} bytes were taken from the transport and {} written", pos, o.rd, o.tx.len()), o.json()));
                }
            }
            "request" => {
                if o.res != "run" {
                    return Err(fail("status", format!("the session ended ({}) although the stream is open: {}", o.res, sim.err_text()), o.json()));
                }
                if o.rd != pos {
                    return Err(fail("stall", format!("{} bytes delivered, {} taken from the transport with a reading consumer", pos, o.rd), o.json()));
                }
                if sim.up != stream[h.hlen..pos] {
                    return Err(fail("payload", format!("after {} bytes the upload side has {} bytes, the bytes after the head are {}", pos, sim.up.len(), pos - h.hlen),
                        json!({"observed_upload": String::from_utf8_lossy(&sim.up), "specification": String::from_utf8_lossy(&stream[h.hlen..pos])})));
                }
                if lower_header_names(&o.tx) != want_tx {
                    return Err(fail("transport", "bytes on the transport differ from the response and the chunks written".into(),
                        json!({"observed": String::from_utf8_lossy(&o.tx), "specification": String::from_utf8_lossy(&want_tx)})));
                }
            }
            "err" => {
                if o.rd > maxhead.max(h.hlen.min(maxhead)) || !o.tx.is_empty() || o.req {
                    return Err(fail("bound", format!("refused head: {} bytes taken from the transport (limit {}), {} written", o.rd, maxhead, o.tx.len()), o.json()));
                }
                break;
            }
            _ => break,
        }
    }
    if !decided {
        return Err(fail("status", "all bytes delivered and the outcome the specification requires was never reached".into(), sim.obs().json()));
    }
    // the ways a stream ends (interleaved downstream EOF / client EOF), by variant
    if responded && sim.res() == "run" {
        match var {
            Variant::Down | Variant::SlowTx => {
                sim.down_eof().map_err(tr)?;
                sim.pump().map_err(tr)?;
            }
            _ => {
                sim.close();
                sim.pump().map_err(tr)?;
            }
        }
        let o = sim.obs();
        if o.res != "closed" || !o.shut || lower_header_names(&o.tx) != want_tx {
            return Err(fail("end", format!("after the end of stream the session is {:?} (shutdown of the transport: {}): {}", o.res, o.shut, sim.err_text()), o.json()));
        }
    }
    if sim.wire.0.lock().unwrap().write_after_shut {
        return Err(fail("end", "bytes written to the transport after its shutdown".into(), sim.obs().json()));
    }
    let bound = TLC_MAX_TAKES.load(Ordering::SeqCst) as usize;
    if bound > 0 && sim.max_takes_per_event > bound {
        return Err(fail("iterations", format!("one event made the listen loop go round {} times; in no behaviour of the specification does an event cause more than {} iterations", sim.max_takes_per_event, bound), sim.obs().json()));
    }
    let p = sim.polls;
    sim.finish();
    Ok(p)
}

async fn sweep(rep: &mut Report, st: &Arc<Settings>, heads: &BTreeMap<String, Arc<HeadInfo>>, maxhead: usize, thorough: bool) {
    let mut n = 0u64;
    let mut polls = 0u64;
    for (h, big) in heads.values().filter(|h| h.named).flat_map(|h| [(h, false), (h, true)]) {
        // `big`: a payload longer than any buffer of the codec's head phase, 1-cuts only
        if big && !(h.verdict == "ok" && (h.name == "c_basic" || h.name == "p_orig" || h.name == "len_eq")) {
            continue;
        }
        let pay = if big { payload(2000) } else if h.verdict == "ok" { payload(3) } else { Vec::new() };
        let total = h.hlen + pay.len();
        let long = total > 200;
        let mut segs: Vec<Vec<usize>> = vec![vec![]];
        // 1-cuts: every byte position
        for a in 1..total {
            segs.push(vec![a]);
        }
        // 2-cuts: every pair for the short heads; for the long ones every first cut against the
        // positions around the end of the head and the size limit
        let near: Vec<usize> = {
            let mut v: Vec<usize> = Vec::new();
            for c in [h.hlen, maxhead, h.may, h.must] {
                for d in 0..6 {
                    for x in [c + d, c.saturating_sub(d)] {
                        if x >= 1 && x < total && !v.contains(&x) {
                            v.push(x);
                        }
                    }
                }
            }
            v.sort();
            v
        };
        if big {
            // nothing more
        } else if !long {
            for a in 1..total {
                for b in a + 1..total {
                    segs.push(vec![a, b - a]);
                }
            }
        } else {
            let step = if thorough { 1 } else { 7 };
            for a in (1..total).step_by(step) {
                for &b in &near {
                    if b > a {
                        segs.push(vec![a, b - a]);
                    }
                }
            }
        }
        // byte-at-a-time, and 3-cuts for the short heads (thorough): all of them up to 120 bytes,
        // every other position beyond
        segs.push(vec![1; total.max(1) - 1]);
        if thorough && !long && !big {
            let stride = if total > 120 { 2 } else { 1 };
            for a in (1..total).step_by(stride) {
                for b in (a + 1..total).step_by(stride) {
                    if total <= 120 {
                        for c in b + 1..total {
                            segs.push(vec![a, b - a, c - b]);
                        }
                    } else {
                        for &c in &near {
                            if c > b {
                                segs.push(vec![a, b - a, c - b]);
                            }
                        }
                        if b + 1 < total {
                            segs.push(vec![a, b - a, 1]);
                        }
                    }
                }
            }
        }
        logcap::set_scenario(&format!("c08:sweep:{}", h.name));
        for (k, pieces) in segs.iter().enumerate() {
            let var = match k % 4 {
                0 => Variant::Plain,
                1 => Variant::Delays,
                2 => Variant::Down,
                _ => Variant::SlowTx,
            };
            {
                let (hn, text, p, verdict) = (h.name.clone(), if h.text.len() < 300 { h.text.clone() } else { format!("{}...", &h.text[..120]) }, pieces.clone(), h.verdict.clone());
                let class = cut_class(h.hlen, total, pieces).to_string();
                watchdog::enter(move || {
                    (format!("http1:hang:{}:{}", verdict, class),
                     "a poll of the listen future did not return (busy loop inside one poll: the task never yields)".to_string(),
                     json!({"kind": "segmentation", "head": hn, "head_text": text, "pieces": p, "variant": format!("{:?}", var)}))
                });
            }
            let r = run_segmentation(st, h, &pay, pieces, var, maxhead).await;
            watchdog::leave();
            n += 1;
            if !pieces.is_empty() {
                if pieces.len() <= 2 || n % 64 == 0 {
                    rep.nontrivial(format!("{}|{:?}", h.name, pieces));
                }
            }
            match r {
                Ok(p) => polls += p,
                Err((sig, why, obs)) => rep.violation_with(sig, why, || json!({"kind": "segmentation", "head": h.name, "head_text": h.text, "pieces": pieces, "variant": format!("{:?}", var), "observed": obs})),
            }
        }
    }
    rep.evals(n);
    rep.count("byte_position_segmentations", n);
    rep.count("polls_total", polls);
}

// ---------------------------------------------------------------------------------------------
// C09: totality on short / truncated / mutated heads

#[derive(Debug, Clone, PartialEq, Eq)]
struct Outcome {
    kind: String,
    view: Option<View>,
    up: Vec<u8>,
    tx: Vec<u8>,
    rd_ok: bool,
}

/// Feed `data` in the given pieces, then close the client's side; answer a request with 200.
async fn feed(st: &Arc<Settings>, data: &[u8], pieces: &[usize], maxhead: usize) -> Result<Outcome, Trouble> {
    let mut sim = Sim::new(st);
    sim.pump()?;
    let mut pos = 0;
    let mut i = 0;
    let mut rd_ok = true;
    let total = data.len();
    loop {
        if pos < total {
            let n = if i < pieces.len() { pieces[i].min(total - pos) } else { total - pos };
            i += 1;
            sim.deliver(&data[pos..pos + n]);
            pos += n;
        } else {
            sim.close();
        }
        sim.pump()?;
        sim.drain()?;
        if sim.respond.is_some() {
            sim.respond_ok(false)?;
            sim.pump()?;
            sim.drain()?;
        }
        let o = sim.obs();
        if !o.req && o.rd > maxhead {
            rd_ok = false;
        }
        if sim.res() != "run" || (pos >= total && sim.wire.0.lock().unwrap().eof) {
            break;
        }
    }
    let o = sim.obs();
    let kind = if o.req { "request".to_string() } else { o.res.to_string() };
    // for a refused head the bytes that follow are never looked at; what was taken in is bounded
    let out = Outcome { kind, view: sim.request.as_ref().map(view_of_real), up: sim.up.clone(), tx: o.tx.clone(), rd_ok };
    sim.finish();
    Ok(out)
}

async fn totality(rep: &mut Report, st: &Arc<Settings>, heads: &BTreeMap<String, Arc<HeadInfo>>, maxhead: usize, thorough: bool) {
    let mut inputs: Vec<(String, Vec<u8>)> = Vec::new();
    let alphabet: [u8; 9] = [0, b'\r', b'\n', b' ', b':', 0xff, b'A', b'/', b'1'];
    for h in heads.values().filter(|h| h.named) {
        let b = &h.bytes;
        let step = if b.len() > 200 { if thorough { 5 } else { 31 } } else { 1 };
        // truncations
        for l in (0..=b.len()).step_by(step) {
            inputs.push((format!("trunc:{}", h.verdict), b[..l].to_vec()));
        }
        // one byte replaced / inserted / deleted
        for p in (0..b.len()).step_by(step) {
            for &a in alphabet.iter().take(if thorough || b.len() <= 200 { 9 } else { 4 }) {
                if b[p] != a {
                    let mut m = b.clone();
                    m[p] = a;
                    inputs.push((format!("subst:{}", h.verdict), m));
                }
            }
            let mut m = b.clone();
            m.remove(p);
            inputs.push((format!("delete:{}", h.verdict), m));
            let mut m = b.clone();
            m.insert(p, b[p]);
            inputs.push((format!("dup:{}", h.verdict), m));
        }
    }
    // every string over the alphabet of bytes the parser branches on, up to length 4 (5: thorough)
    let small: [u8; 7] = [b'G', b' ', b'/', b'\r', b'\n', b':', 0];
    let maxlen = if thorough { 5 } else { 4 };
    let mut cur: Vec<Vec<u8>> = vec![vec![]];
    for _ in 0..maxlen {
        let mut next = Vec::new();
        for c in &cur {
            for &a in &small {
                let mut x = c.clone();
                x.push(a);
                next.push(x);
            }
        }
        for x in &next {
            inputs.push(("short".into(), x.clone()));
        }
        cur = next;
    }
    rep.count("totality_inputs", inputs.len() as u64);
    for (class, data) in &inputs {
        rep.eval();
        rep.nontrivial(if data.len() <= 64 { format!("{}|{}", class, hex(data)) } else {
            let sum = data.iter().enumerate().fold(0u64, |a, (i, b)| a.wrapping_mul(1099511628211).wrapping_add((*b as u64) ^ (i as u64)));
            format!("{}|{}|{:x}", class, data.len(), sum)
        });
        // the plain parser calls
        for (which, r) in [("decode_request", catch(|| door::decode_request(data).is_ok())), ("decode_response", catch(|| door::decode_response(data).is_ok()))] {
            if let Err(p) = r {
                rep.violation_with(format!("c09:http1:panic:{}:{}", which, class), format!("{} panicked: {}", which, p), || json!({"input_hex": hex(data), "len": data.len()}));
            }
        }
        // the codec, under three segmentations; the outcome must not depend on them
        let mid = data.len() / 2;
        let segs: Vec<Vec<usize>> = if data.len() >= 2 { vec![vec![], vec![mid], vec![1; data.len() - 1]] } else { vec![vec![]] };
        let mut first: Option<Outcome> = None;
        for pieces in &segs {
            {
                let (d, p, c) = (data.clone(), pieces.clone(), class.clone());
                watchdog::enter(move || {
                    (format!("c09:http1:hang:{}", c), "a poll of the listen future did not return on this input (busy loop, the task never yields)".to_string(),
                     json!({"input_hex": hex(&d[..d.len().min(600)]), "len": d.len(), "pieces": if p.len() > 8 { json!("byte-at-a-time") } else { json!(p) }}))
                });
            }
            let r = feed(st, data, pieces, maxhead).await;
            watchdog::leave();
            let pj = if pieces.len() > 8 { json!("byte-at-a-time") } else { json!(pieces) };
            match r {
                Err(Trouble::Panic(p)) => rep.violation_with(format!("c09:http1:panic:listen:{}", class), format!("the codec panicked: {}", p), || json!({"input_hex": hex(data), "pieces": pj})),
                Err(Trouble::Spin(n)) => rep.violation_with(format!("c09:http1:spin:{}", class), format!("the listen future woke itself {} times without progress", n), || json!({"input_hex": hex(data), "pieces": pj})),
                Err(Trouble::Op(e)) => rep.violation_with(format!("c09:http1:op:{}", class), e, || json!({"input_hex": hex(data), "pieces": pj})),
                Ok(o) => {
                    if !o.rd_ok {
                        rep.violation_with(format!("c09:http1:unbounded:{}", class), format!("more than {} bytes buffered without a request", maxhead), || json!({"input_hex": hex(&data[..data.len().min(600)]), "pieces": pj}));
                    }
                    match &first {
                        None => first = Some(o),
                        Some(f) => {
                            if *f != o {
                                rep.violation_with(format!("c09:http1:segmentation:{}", class), format!("outcome depends on the segmentation: {} in one piece, {} in pieces", f.kind, o.kind),
                                    || json!({"input_hex": hex(&data[..data.len().min(600)]), "pieces": pj, "one_piece": {"kind": f.kind, "view": f.view.as_ref().map(view_json), "upload": f.up.len(), "tx": String::from_utf8_lossy(&f.tx)},
                                              "in_pieces": {"kind": o.kind, "view": o.view.as_ref().map(view_json), "upload": o.up.len(), "tx": String::from_utf8_lossy(&o.tx)}}));
                            }
                        }
                    }
                }
            }
        }
    }
}

// ---------------------------------------------------------------------------------------------

static DONE: AtomicU64 = AtomicU64::new(0);
/// the largest number of loop iterations one environment event causes in any behaviour TLC generated
static TLC_MAX_TAKES: AtomicU64 = AtomicU64::new(0);

fn main() {
    quiet_panics();
    logcap::install();
    logcap::plant("proxy-authorization", "dmVyaWY6aHR0cDFzZWNyZXQ=", &["http1secret"]);
    let out_path = arg("--out").expect("--out");
    if let Some(df) = arg("--down") {
        let mut rep = Report::new("c08-down");
        watchdog::arm(&out_path, Duration::from_secs(10));
        trusttunnel::verif::start_recording();
        let st = settings();
        let rt = tokio::runtime::Builder::new_current_thread().enable_time().start_paused(true).build().unwrap();
        rt.block_on(async { replay_down(&mut rep, &st, &df).await; });
        DONE.store(1, Ordering::SeqCst);
        rep.finish(&out_path);
    }
    let vectors = arg("--vectors").expect("--vectors");
    let thorough = tier_thorough();
    let tot = std::env::args().any(|a| a == "--totality");
    let mut rep = Report::new(if tot { "c09_http1" } else { "c08" });
    watchdog::arm(&out_path, Duration::from_secs(10));
    let (heads, maxhead, maxheaders) = load_heads(&vectors);
    if heads.is_empty() {
        panic!("no HEAD lines in {}", vectors);
    }
    // the limits the specification was checked with are the code's
    assert_eq!(maxhead, door::MAX_RAW_HEADERS_SIZE, "MaxHead of the model differs from MAX_RAW_HEADERS_SIZE");
    assert_eq!(maxheaders, door::MAX_HEADERS_NUM, "MaxHeaders of the model differs from MAX_HEADERS_NUM");
    trusttunnel::verif::start_recording();
    let st = settings();
    let rt = tokio::runtime::Builder::new_current_thread().enable_time().start_paused(true).build().unwrap();
    rt.block_on(async {
        if tot {
            totality(&mut rep, &st, &heads, maxhead, thorough).await;
        } else {
            replay(&mut rep, &st, &heads, &vectors).await;
            // the behaviours do not depend on the size of the upload buffer: once more with 2 octets
            let small = settings_small_upload_buffer();
            replay(&mut rep, &small, &heads, &vectors).await;
            if !std::env::args().any(|a| a == "--no-sweep") {
                sweep(&mut rep, &st, &heads, maxhead, thorough).await;
            }
        }
    });
    DONE.store(1, Ordering::SeqCst);
    rep.finish(&out_path);
}
