//! C05 on QUIC — the decision table TLC prints for Demux.tla (MCDemuxTable: configuration x SNI x
//! ALPN list with the SET of acceptable answers for transport "quic") replayed over real QUIC
//! handshakes against a listening `Core` (`Core::listen` -> `listen_udp` -> `QuicMultiplexer`,
//! BoringSSL select-certificate callback, `finalize_established_connection`,
//! `on_new_quic_connection`): every host entry has its OWN certificate (fixtures c1..c5), and the
//! quiche client compares
//!   - the leaf certificate it was served in the handshake (`peer_cert`),
//!   - the channel that serves it (a probe request: ping answers 200, speedtest 400, the reverse
//!     proxy relays the origin's marked answer, the tunnel challenges with 407 or — on a connection
//!     authenticated by `<credentials>.<main host>` — dials through the recording forwarder),
//!   - the credentials label the tunnel was given (from the forwarder call),
//! with the answer set of the vector. Only points whose configuration enables HTTP/3 and whose ALPN
//! list offers h3 are QUIC connections that can exist; the others are left to the TCP layer (c05.rs).
//!
//! The expected answers are TLC's; nothing here decides what is right.

#[path = "../h3client.rs"]
mod h3client;
#[path = "../h3env.rs"]
mod h3env;

use h3client::*;
use h3env::*;
use serde_json::{json, Value};
use std::collections::{BTreeMap, HashMap};
use std::io::{Read, Write};
use std::net::{IpAddr, SocketAddr};
use std::sync::atomic::{AtomicUsize, Ordering};
use std::sync::{Arc, Mutex};
use std::time::Duration;
use trusttunnel::authentication::registry_based::RegistryBasedAuthenticator;
use trusttunnel::authentication::{Authenticator, Source, Status};
use trusttunnel::core::Core;
use trusttunnel::log_utils;
use trusttunnel::settings::{Settings, TlsHostsSettings};
use trusttunnel::shutdown::Shutdown;
use trusttunnel::verif::tunnel::{set_forwarder, VConnError, VConnect, VForwarder, VMux, VTcpMeta};
use ttv::*;

type Ans = [String; 4];

fn refuse() -> Ans {
    ["refuse".into(), "-".into(), "-".into(), "-".into()]
}

// ------------------------------------------------------------------ rendering (as in c05.rs)

const SUFFIX: &str = "-k7q2x";

fn label(l: &str) -> String {
    let w = match l {
        "a" => "alfa",
        "b" => "bravo",
        "m" => "mike",
        o => o,
    };
    format!("{}{}", w, SUFFIX)
}

fn unlabel(s: &str) -> String {
    match s.strip_suffix(SUFFIX) {
        Some("alfa") => "a".into(),
        Some("bravo") => "b".into(),
        Some("mike") => "m".into(),
        _ => format!("?{}", s),
    }
}

fn render(name: &Value) -> String {
    name.as_array().map(|a| a.iter().map(|x| label(x.as_str().unwrap())).collect::<Vec<_>>().join(".")).unwrap_or_default()
}

fn alpn_bytes(sym: &str) -> Vec<u8> {
    match sym {
        "unknown" => b"spdy/9".to_vec(),
        "nonUtf8" => vec![0xff, 0xfe, 0x80],
        s => s.as_bytes().to_vec(),
    }
}

fn fixture_dir() -> String {
    format!("{}/fixtures/c05", env!("CARGO_MANIFEST_DIR"))
}

fn pem_der(path: &str) -> Vec<u8> {
    use base64::Engine;
    let s = std::fs::read_to_string(path).unwrap_or_else(|e| panic!("{}: {}", path, e));
    let b64: String = s.lines().filter(|l| !l.starts_with("-----")).collect();
    base64::engine::general_purpose::STANDARD.decode(b64).expect("fixture PEM")
}

fn hosts_toml(cfg: &Value) -> String {
    let mut out = String::new();
    for h in cfg["hosts"].as_array().unwrap() {
        let table = match h["cls"].as_str().unwrap() {
            "main" => "main_hosts",
            "ping" => "ping_hosts",
            "speed" => "speedtest_hosts",
            _ => "reverse_proxy_hosts",
        };
        let cert = h["cert"].as_str().unwrap();
        let alts: Vec<String> = h["alts"].as_array().unwrap().iter().map(|a| format!("\"{}\"", render(a))).collect();
        out += &format!(
            "[[{}]]\nhostname = \"{}\"\ncert_chain_path = \"{}/{}.crt\"\nprivate_key_path = \"{}/{}.key\"\nallowed_sni = [{}]\n\n",
            table, render(&h["name"]), fixture_dir(), cert, fixture_dir(), cert, alts.join(", ")
        );
    }
    out
}

fn enabled_of(cfg: &Value) -> Vec<String> {
    let mut v: Vec<String> = cfg["enabled"].as_array().unwrap().iter().map(|x| x.as_str().unwrap().to_string()).collect();
    v.sort();
    v
}

fn settings_toml(cfg: &Value, port: u16, origin: SocketAddr) -> String {
    let en = enabled_of(cfg);
    let mut t = format!("listen_address = \"127.0.0.1:{}\"\n", port);
    t += "[listen_protocols]\n";
    for (p, table) in [("h1", "http1"), ("h2", "http2"), ("h3", "quic")] {
        if en.iter().any(|x| x == p) {
            t += &format!("[listen_protocols.{}]\n", table);
        }
    }
    if cfg["rp"].as_bool().unwrap() {
        t += &format!("[reverse_proxy]\nserver_address = \"{}\"\npath_mask = \"/rp\"\n", origin);
    }
    t
}

fn answers(v: &Value) -> Vec<Ans> {
    v.as_array().unwrap().iter().map(|a| {
        let a = a.as_array().unwrap();
        [0, 1, 2, 3].map(|i| a[i].as_str().unwrap().to_string())
    }).collect()
}

/// class of a divergence (computed from the expected set and the observation, never from text)
fn classify(exp: &[Ans], got: &Ans, enabled: &[String]) -> String {
    let en = enabled.join("+");
    let serve: Vec<&Ans> = exp.iter().filter(|a| a[0] != "refuse").collect();
    if got[0] == "refuse" {
        return format!("demux:quic:refused-but-must-serve:{}:{}:enabled={}", serve[0][0], serve[0][1], en);
    }
    if serve.is_empty() {
        return format!("demux:quic:served-but-must-refuse:{}:{}:enabled={}", got[0], got[1], en);
    }
    let what = if serve.iter().all(|a| a[0] != got[0]) {
        "wrong-channel"
    } else if serve.iter().all(|a| a[2] != got[2]) {
        "wrong-cert"
    } else if serve.iter().all(|a| a[3] != got[3]) {
        "wrong-creds"
    } else {
        "wrong-combination"
    };
    // which class of entry the SNI designates, which channel served it
    format!("demux:quic:{}:exp={}:got={}:enabled={}", what, serve[0][0], got[0], en)
}

fn fnv(seed: u64, key: &str) -> u64 {
    let mut h: u64 = 0xcbf29ce484222325 ^ seed.wrapping_mul(0x9e3779b97f4a7c15);
    for b in key.as_bytes() {
        h ^= *b as u64;
        h = h.wrapping_mul(0x100000001b3);
    }
    h ^ (h >> 29)
}

fn for_each_tagged(path: &str, tag: &str, mut f: impl FnMut(Value)) {
    use std::io::BufRead;
    let file = std::fs::File::open(path).unwrap_or_else(|e| panic!("open {}: {}", path, e));
    let prefix = format!("<<\"{}\", \"", tag);
    for line in std::io::BufReader::new(file).lines() {
        let line = line.unwrap();
        if let Some(body) = line.strip_prefix(&prefix).and_then(|r| r.strip_suffix("\">>")) {
            let un = body.replace("\\\"", "\"").replace("\\\\", "\\");
            f(serde_json::from_str(&un).unwrap_or_else(|e| panic!("bad JSON in TLC output: {} in {}", e, un)));
        }
    }
}

// ------------------------------------------------------------------ the endpoint's collaborators

/// accepts every `<label>.<main host>` credentials label; Basic credentials never
struct AnySniAuthenticator(RegistryBasedAuthenticator);

impl Authenticator for AnySniAuthenticator {
    fn authenticate(&self, source: &Source<'_>, log_id: &log_utils::IdChain<u64>) -> Status {
        match source {
            Source::Sni(_) => Status::Pass,
            _ => self.0.authenticate(source, log_id),
        }
    }
}

/// records who dialled with which authentication, refuses every dial
#[derive(Default)]
struct RecordingForwarder {
    calls: Mutex<HashMap<IpAddr, Vec<Option<(String, String)>>>>,
}

impl VForwarder for RecordingForwarder {
    fn tcp_connect(&self, meta: VTcpMeta) -> VConnect {
        self.calls.lock().unwrap().entry(meta.client_address.to_canonical()).or_default().push(meta.auth.clone());
        VConnect::Err(VConnError::Io(std::io::Error::from(std::io::ErrorKind::ConnectionRefused)))
    }
    fn check_auth(&self, _: IpAddr, _: &str, _: (String, String)) -> Result<(), VConnError> {
        Ok(())
    }
    fn udp_mux(&self, _: IpAddr) -> VMux {
        VMux::Err(std::io::Error::new(std::io::ErrorKind::Other, "not here"))
    }
    fn icmp_mux(&self) -> VMux {
        VMux::NotConfigured
    }
}

fn start_origin() -> SocketAddr {
    let l = std::net::TcpListener::bind("127.0.0.1:0").expect("origin");
    let addr = l.local_addr().unwrap();
    std::thread::spawn(move || {
        for s in l.incoming().flatten() {
            std::thread::spawn(move || {
                let mut s = s;
                let _ = s.set_read_timeout(Some(Duration::from_secs(5)));
                let mut rx = Vec::new();
                let mut tmp = [0u8; 2048];
                while !rx.windows(4).any(|w| w == b"\r\n\r\n") {
                    match s.read(&mut tmp) {
                        Ok(n) if n > 0 => rx.extend_from_slice(&tmp[..n]),
                        _ => break,
                    }
                }
                let _ = s.write_all(b"HTTP/1.1 200 OK\r\nX-Origin: c05q\r\nContent-Length: 2\r\n\r\nok");
                let _ = s.flush();
                let _ = s.set_read_timeout(Some(Duration::from_millis(200)));
                while let Ok(n) = s.read(&mut tmp) {
                    if n == 0 {
                        break;
                    }
                }
            });
        }
    });
    addr
}

struct Running {
    addr: SocketAddr,
    task: tokio::task::JoinHandle<std::io::Result<()>>,
}

fn start_core(rt: &tokio::runtime::Runtime, cfg: &Value, origin: SocketAddr) -> Result<Running, String> {
    let mut last = String::new();
    for _ in 0..10 {
        let port = free_port();
        let st = settings_toml(cfg, port, origin);
        let settings: Settings = toml::from_str(&st).map_err(|e| format!("settings TOML: {}\n{}", e, st))?;
        let ht = hosts_toml(cfg);
        let hosts: TlsHostsSettings = toml::from_str(&ht).map_err(|e| format!("hosts TOML: {}\n{}", e, ht))?;
        let auth: Arc<dyn Authenticator> = Arc::new(AnySniAuthenticator(RegistryBasedAuthenticator::new(&[])));
        let core: &'static Core = Box::leak(Box::new(Core::new(settings, Some(auth), hosts, Shutdown::new()).map_err(|e| format!("Core::new: {:?}", e))?));
        let task = rt.spawn(async move { core.listen().await });
        // both listeners are bound by the first poll of Core::listen; a QUIC client retransmits its Initial anyway
        for _ in 0..40 {
            if task.is_finished() || std::net::TcpStream::connect(("127.0.0.1", port)).is_ok() {
                break;
            }
            std::thread::sleep(Duration::from_millis(10));
        }
        std::thread::sleep(Duration::from_millis(30));
        if !task.is_finished() {
            return Ok(Running { addr: SocketAddr::from(([127, 0, 0, 1], port)), task });
        }
        last = format!("Core::listen on port {} returned at once", port);
    }
    Err(last)
}

// ------------------------------------------------------------------ one point

struct Point {
    cfg_key: String,
    v: Value,
    ip: IpAddr,
}

struct Seen {
    ans: Ans,
    note: String,
}

fn head_of(c: &H3Conn, sid: u64) -> Option<(u16, bool)> {
    let s = c.streams.get(&sid)?;
    let h = s.heads.first()?;
    Some((s.status(0), h.iter().any(|(n, v)| n == "x-origin" && v == b"c05q")))
}

fn visit(server: SocketAddr, p: &Point, der_names: &HashMap<Vec<u8>, String>, fwd: &RecordingForwarder) -> Seen {
    let sni = render(&p.v["s"]);
    let alpn: Vec<Vec<u8>> = p.v["a"].as_array().unwrap().iter().map(|x| alpn_bytes(x.as_str().unwrap())).collect();
    let alpn_refs: Vec<&[u8]> = alpn.iter().map(|a| a.as_slice()).collect();
    let opts = ClientOpts { src_ip: p.ip, sni: if sni.is_empty() { None } else { Some(&sni) }, alpn: &alpn_refs, handshake_budget: Duration::from_secs(8), ..Default::default() };
    let mut c = match H3Conn::connect(server, &opts) {
        Ok(c) => c,
        Err(e) => return Seen { ans: refuse(), note: format!("handshake: {:?}", e) },
    };
    let cert = match c.peer_cert_der() {
        Some(d) => der_names.get(&d).cloned().unwrap_or_else(|| "?unknown-certificate".into()),
        None => "?no-certificate".into(),
    };
    let proto = match c.negotiated_alpn().as_slice() {
        b"h3" => "h3".to_string(),
        o => format!("?{}", String::from_utf8_lossy(o)),
    };
    let authority = if sni.is_empty() { "nosni.invalid".to_string() } else { sni.clone() };
    // probe 1: GET / without credentials
    let mut note = String::new();
    let h: Vec<(Vec<u8>, Vec<u8>)> = vec![
        (b":method".to_vec(), b"GET".to_vec()),
        (b":scheme".to_vec(), b"https".to_vec()),
        (b":authority".to_vec(), authority.clone().into_bytes()),
        (b":path".to_vec(), b"/".to_vec()),
        (b"user-agent".to_vec(), b"verif-harness".to_vec()),
    ];
    let mut channel = "refuse".to_string();
    let mut creds = "-".to_string();
    match c.request(&h, true) {
        Ok(sid) => {
            c.run_until(Duration::from_secs(6), |c| c.streams.get(&sid).map(|s| !s.heads.is_empty() || s.ended()).unwrap_or(false));
            match head_of(&c, sid) {
                Some((200, true)) => channel = "reverse_proxy".into(),
                Some((200, false)) => channel = "ping".into(),
                Some((400, _)) => channel = "speedtest".into(),
                Some((407, _)) => channel = "tunnel".into(),
                Some((st, _)) => {
                    // a tunnel connection authenticated by its SNI forwards the request: the dial tells
                    note = format!("GET / answered {}", st);
                    let t = request_headers("CONNECT", "example.org:443", &[("user-agent", b"verif-harness")]);
                    if let Ok(s2) = c.request(&t, false) {
                        c.run_until(Duration::from_secs(6), |c| c.streams.get(&s2).map(|s| !s.heads.is_empty() || s.ended()).unwrap_or(false));
                        note += &format!(", CONNECT answered {:?}", head_of(&c, s2).map(|x| x.0));
                    }
                    let calls = fwd.calls.lock().unwrap().get(&p.ip).cloned().unwrap_or_default();
                    match calls.iter().flatten().find(|(k, _)| k == "sni") {
                        Some((_, label)) => {
                            channel = "tunnel".into();
                            creds = unlabel(label);
                        }
                        None => {
                            channel = format!("?status{}", st);
                        }
                    }
                }
                None => note = if c.is_closed() { c.close_reason() } else { "no response to GET /".into() },
            }
        }
        Err(e) => note = e,
    }
    c.close();
    if channel == "refuse" {
        // the handshake completed (a certificate was shown) but nothing served the connection
        return Seen { ans: refuse(), note: format!("{}; certificate shown: {}", note, cert) };
    }
    Seen { ans: [channel, proto, cert, creds], note }
}

static PANICS: Mutex<Vec<String>> = Mutex::new(Vec::new());

fn main() {
    std::panic::set_hook(Box::new(|info| {
        let mut g = PANICS.lock().unwrap_or_else(|e| e.into_inner());
        if g.len() < 20 {
            g.push(format!("[{}] {}", std::thread::current().name().unwrap_or("?"), info));
        }
    }));
    install_logger();
    let out_path = arg("--out").expect("--out");
    let vectors = arg("--vectors").expect("--vectors");
    let threads: usize = arg_or("--threads", "12").parse().unwrap();
    // at most this many configurations (deterministic choice by VERIF_SEED); 0 = all
    let max_cfgs: usize = arg_or("--max-configs", "0").parse().unwrap();
    let mut rep = Report::new("c05q");
    watchdog::arm(&out_path, Duration::from_secs(600));

    let mut der_names: HashMap<Vec<u8>, String> = HashMap::new();
    for i in 1..=5 {
        der_names.insert(pem_der(&format!("{}/c{}.crt", fixture_dir(), i)), format!("c{}", i));
    }
    if der_names.len() != 5 {
        panic!("the certificate fixtures are not distinct");
    }

    // ---- configurations that have a QUIC listener, points that are QUIC connections
    let mut cfgs: BTreeMap<String, Value> = BTreeMap::new();
    for_each_tagged(&vectors, "CFG", |c| {
        rep.count("tlc_configs", 1);
        let cfg = &c["cfg"];
        let valid = c["valid"].as_array().unwrap().iter().all(|b| b.as_bool().unwrap());
        if valid && cfg["enabled"].as_array().unwrap().iter().any(|p| p == "h3") {
            cfgs.insert(c["c"].to_string(), cfg.clone());
        }
    });
    if max_cfgs > 0 && cfgs.len() > max_cfgs {
        let mut keys: Vec<String> = cfgs.keys().cloned().collect();
        keys.sort_by_key(|k| fnv(seed(), k));
        for k in keys.into_iter().skip(max_cfgs) {
            cfgs.remove(&k);
        }
    }
    let mut points: Vec<Point> = vec![];
    for_each_tagged(&vectors, "VEC", |v| {
        rep.count("tlc_vectors", 1);
        let key = v["c"].to_string();
        if !cfgs.contains_key(&key) {
            return;
        }
        let a = v["a"].as_array().unwrap();
        // a QUIC connection exists only if the client offers h3 (the QUIC listener speaks nothing else);
        // of the longer lists those with h3 next to a second token are kept (the first two places)
        if !a.iter().any(|x| x == "h3") || a.len() > 2 {
            return;
        }
        let ip = source_ip(points.len() as u32);
        points.push(Point { cfg_key: key, v, ip });
    });
    rep.count("quic_configs", cfgs.len() as u64);
    rep.count("quic_points", points.len() as u64);

    // ---- endpoints
    let server_rt = tokio::runtime::Builder::new_multi_thread().worker_threads(4).thread_name("endpoint").enable_all().build().unwrap();
    let fwd = Arc::new(RecordingForwarder::default());
    set_forwarder(Some(fwd.clone()));
    let origin = start_origin();
    let mut eps: HashMap<String, Running> = HashMap::new();
    for (k, cfg) in &cfgs {
        match catch(|| start_core(&server_rt, cfg, origin)) {
            Ok(Ok(r)) => {
                eps.insert(k.clone(), r);
            }
            Ok(Err(e)) => rep.violation_with(format!("demux:quic:endpoint-not-started:enabled={}", enabled_of(cfg).join("+")), e, || json!({"cfg": cfg})),
            Err(p) => rep.violation_with("demux:quic:endpoint-panic", p, || json!({"cfg": cfg})),
        }
    }

    // ---- run
    let results: Vec<Mutex<Option<Seen>>> = points.iter().map(|_| Mutex::new(None)).collect();
    let in_flight: Arc<Mutex<Vec<usize>>> = Default::default();
    {
        let fl = in_flight.clone();
        let descs: Vec<Value> = points.iter().map(|p| json!({"cfg": cfgs[&p.cfg_key], "sni": p.v["s"], "alpn": p.v["a"]})).collect();
        watchdog::enter(move || {
            let cur: Vec<Value> = fl.lock().unwrap().iter().map(|i| descs[*i].clone()).collect();
            ("demux:quic:hang".into(), "a QUIC demultiplexing scenario did not finish".into(), json!({"in_flight": cur}))
        });
    }
    let next = AtomicUsize::new(0);
    std::thread::scope(|s| {
        for t in 0..threads.max(1) {
            let (next, points, results, in_flight, eps, der_names, fwd) = (&next, &points, &results, &in_flight, &eps, &der_names, &fwd);
            std::thread::Builder::new().name(format!("client-{}", t)).spawn_scoped(s, move || loop {
                let i = next.fetch_add(1, Ordering::Relaxed);
                if i >= points.len() {
                    break;
                }
                let Some(ep) = eps.get(&points[i].cfg_key) else { continue };
                in_flight.lock().unwrap().push(i);
                let seen = catch(|| visit(ep.addr, &points[i], der_names, fwd)).unwrap_or_else(|p| Seen { ans: ["?panic".into(), "-".into(), "-".into(), "-".into()], note: p });
                in_flight.lock().unwrap().retain(|x| *x != i);
                *results[i].lock().unwrap() = Some(seen);
            }).unwrap();
        }
    });
    watchdog::leave();
    for (k, r) in &eps {
        if r.task.is_finished() {
            rep.violation_with("demux:quic:listener-died", "Core::listen returned while QUIC clients were being served", || json!({"cfg": cfgs[k]}));
        }
    }

    // ---- judge
    for (i, p) in points.iter().enumerate() {
        let Some(seen) = results[i].lock().unwrap().take() else { continue };
        let cfg = &cfgs[&p.cfg_key];
        let exp = answers(&p.v["q"]);
        let enabled = enabled_of(cfg);
        rep.eval();
        let designates_nothing = exp.iter().any(|a| a[0] == "refuse");
        if !designates_nothing {
            rep.nontrivial(format!("{:016x}", fnv(0, &format!("{}|{}|{}", p.cfg_key, p.v["s"], p.v["a"]))));
        }
        for a in &exp {
            if a[0] != "refuse" && !designates_nothing {
                rep.count(&format!("expect_{}", a[0]), 1);
                if a[3] != "-" {
                    rep.count("expect_sni_creds", 1);
                }
                if a[2] != "c1" {
                    rep.count("expect_cert_other_than_first_main", 1);
                }
                if !enabled.iter().any(|e| e == "h1") {
                    rep.count("points_without_http1", 1);
                }
                break;
            }
        }
        if i % 97 == 5 {
            rep.sample(json!({"cfg": cfg, "sni": p.v["s"], "alpn": p.v["a"], "expected": exp, "observed": seen.ans}));
        }
        if !exp.contains(&seen.ans) {
            let sig = classify(&exp, &seen.ans, &enabled);
            rep.violation_with(sig, "a QUIC connection was served outside the answer set of Select(cfg, sni, alpn, \"quic\")", || {
                json!({"layer": "quic", "cfg": cfg, "sni": p.v["s"], "sni_text": render(&p.v["s"]), "alpn": p.v["a"], "expected": exp, "observed": seen.ans, "note": seen.note})
            });
        }
    }
    let panics = PANICS.lock().unwrap_or_else(|e| e.into_inner());
    if !panics.is_empty() {
        rep.violation_with("demux:quic:panic", format!("{} panic(s) while serving QUIC clients", panics.len()), || json!({"panics": panics.clone()}));
    }
    set_forwarder(None);
    rep.finish(&out_path);
}
