//! C02 on HTTP/3 — FAULT scenarios on an established CONNECT tunnel through the real QUIC path
//! (`Core::listen` -> `QuicMultiplexer` -> `Http3Codec` -> `Tunnel` -> `DuplexPipe` -> the real
//! `TcpForwarder` -> a TCP destination on loopback). The scenarios are the ones TLC prints from
//! MCPipeE2EF (tag "E2EF": the two scripts, which side fails): after the scripted chunks went through
//! in both directions (delivered exactly, position-coded bytes) one side FAILS, and Pipe.tla predicts
//! FailStop — the exchange ends with an error, never with a clean end of stream on the other side, and
//! what was delivered is a prefix.
//!
//! The way a side can fail on HTTP/3 (harness-added inputs; the expected outcome is the vector's):
//!   bad = "out" (the client):
//!     reset-idle     RESET_STREAM between DATA frames, after the endpoint has read everything; the QUIC
//!                    connection stays up and busy (PINGs, and a second request is answered afterwards)
//!     reset-midframe RESET_STREAM in the middle of a DATA frame (frame header announces more than was sent)
//!     reset-both     RESET_STREAM + STOP_SENDING
//!     conn-close     the client closes the whole connection with an application error
//!   bad = "in" (the destination):
//!     rst            the destination's TCP connection is reset (SO_LINGER 0) after everything was read
//!     rst-mid        ... in the middle of a large download the client has not read yet
//! Expected: the other side's connection / stream ends within a few seconds; nothing beyond what the
//! failing side had sent arrives; a destination failure is never shown to the client as a clean end.

#[path = "../h3client.rs"]
mod h3client;
#[path = "../h3env.rs"]
mod h3env;

use h3client::*;
use h3env::*;
use serde_json::{json, Value};
use std::io::{Read, Write};
use std::net::{TcpListener, TcpStream};
use std::sync::Mutex;
use std::time::{Duration, Instant};
use trusttunnel::verif::tunnel::set_forwarder;
use ttv::*;

const UNIT: usize = 997;
const TEARDOWN: Duration = Duration::from_secs(5);

fn code(pos: usize, salt: u8) -> u8 {
    ((pos % 251) as u8).wrapping_add(salt) | 1
}

fn payload(from: usize, n: usize, salt: u8) -> Vec<u8> {
    (0..n).map(|k| code(from + k, salt)).collect()
}

/// `got` must be exactly the first `total` octets of the coded stream
fn check_stream(got: &[u8], total: usize, salt: u8) -> Option<String> {
    if got.len() != total {
        return Some(format!("{} bytes delivered, {} sent", got.len(), total));
    }
    check_prefix(got, salt)
}

fn check_prefix(got: &[u8], salt: u8) -> Option<String> {
    for (i, b) in got.iter().enumerate() {
        if *b != code(i, salt) {
            return Some(format!("byte {} differs (reordered, duplicated or corrupted)", i));
        }
    }
    None
}

fn accept(l: &TcpListener, budget: Duration) -> Result<TcpStream, String> {
    l.set_nonblocking(true).map_err(|e| e.to_string())?;
    let t0 = Instant::now();
    loop {
        match l.accept() {
            Ok((s, _)) => {
                s.set_nonblocking(false).map_err(|e| e.to_string())?;
                return Ok(s);
            }
            Err(e) if e.kind() == std::io::ErrorKind::WouldBlock => {
                if t0.elapsed() > budget {
                    return Err("destination saw no connection".into());
                }
                std::thread::sleep(Duration::from_millis(2));
            }
            Err(e) => return Err(e.to_string()),
        }
    }
}

/// Read what is there without blocking long; returns (bytes, ended) where ended = EOF or error
fn drain_peer(peer: &mut TcpStream, into: &mut Vec<u8>) -> bool {
    let _ = peer.set_read_timeout(Some(Duration::from_millis(5)));
    let mut b = [0u8; 16384];
    loop {
        match peer.read(&mut b) {
            Ok(0) => return true,
            Ok(n) => into.extend_from_slice(&b[..n]),
            Err(e) if matches!(e.kind(), std::io::ErrorKind::WouldBlock | std::io::ErrorKind::TimedOut) => return false,
            Err(_) => return true,
        }
    }
}

struct Scenario<'a> {
    so: &'a [usize],
    si: &'a [usize],
    bad_in: bool,
    variant: &'a str,
}

/// Returns (problems, note); Err = the scenario could not be set up (the tunnel was not established
/// or the scripted chunks did not go through), reported as a violation of its own class
fn run_fault(server: std::net::SocketAddr, n: u32, sc: &Scenario) -> Result<(Vec<String>, String), String> {
    let listener = TcpListener::bind("127.0.0.1:0").map_err(|e| e.to_string())?;
    let port = listener.local_addr().unwrap().port();
    let target = format!("127.0.0.1:{}", port);
    let to = Duration::from_secs(10);
    let mut c = H3Conn::connect(server, &ClientOpts { src_ip: source_ip(n), ..Default::default() }).map_err(|e| format!("handshake: {:?}", e))?;
    let sid = c.request(&request_headers("CONNECT", &target, &[("user-agent", b"verif-harness")]), false)?;
    if !c.run_until(to, |c| c.streams.get(&sid).map(|s| !s.heads.is_empty() || s.ended()).unwrap_or(false)) || c.stream(sid).status(0) != 200 {
        return Err(format!("CONNECT not answered 200 ({:?})", c.stream(sid).heads.first()));
    }
    let mut peer = accept(&listener, to)?;
    let _ = peer.set_nodelay(true);
    let so_total: usize = sc.so.iter().sum();
    let si_total: usize = sc.si.iter().sum();
    let mut problems: Vec<String> = vec![];
    let mut note = String::new();
    // both directions carry their chunks: one DATA frame per chunk of the client's script
    let mut sent = 0;
    for &k in sc.so {
        c.send_data(sid, &payload(sent, k, 7), false, to)?;
        sent += k;
    }
    let mid = sc.variant == "rst-mid";
    let mut psent = 0;
    for &k in sc.si {
        peer.write_all(&payload(psent, k, 101)).map_err(|e| e.to_string())?;
        psent += k;
    }
    // the destination reads the client's bytes while the client keeps its connection going
    let mut pgot: Vec<u8> = vec![];
    let t0 = Instant::now();
    while pgot.len() < so_total {
        if drain_peer(&mut peer, &mut pgot) {
            return Err(format!("the destination's connection ended after {} of {} bytes", pgot.len(), so_total));
        }
        c.linger(Duration::from_millis(5));
        if t0.elapsed() > to {
            return Err(format!("destination received {} of {} bytes", pgot.len(), so_total));
        }
    }
    if !mid {
        c.run_until(to, |c| c.streams[&sid].body_len >= si_total as u64 || c.streams[&sid].ended());
        let s = c.stream(sid);
        if s.ended() {
            note = format!("before the fault the client's stream ended (finished={} reset={:?})", s.finished, s.reset);
        }
        if let Some(p) = check_stream(&s.body, si_total, 101) {
            problems.push(format!("destination->client: {}", p));
        }
    }
    if let Some(p) = check_stream(&pgot, so_total, 7) {
        problems.push(format!("client->destination: {}", p));
    }
    if sc.bad_in {
        // the destination's connection is RESET
        let _ = socket2::SockRef::from(&peer).set_linger(Some(Duration::ZERO));
        drop(peer);
        let before = c.stream(sid).body_len;
        c.run_until(TEARDOWN, |c| c.streams[&sid].ended() || c.is_closed());
        let s = c.stream(sid);
        if let Some(p) = check_prefix(&s.body, 101) {
            problems.push(format!("destination->client: {}", p));
        }
        if s.body.len() > si_total {
            problems.push(format!("data: {} more bytes than the destination sent", s.body.len() - si_total));
        }
        if s.finished && s.reset.is_none() {
            problems.push(format!("clean-end: the reset of the destination's connection reached the client as a clean end of stream (after {} of {} bytes)", s.body.len(), si_total));
        } else if s.reset.is_some() || c.is_closed() {
            note = format!("client saw: reset={:?} closed={} ({} -> {} bytes)", s.reset, c.is_closed(), before, s.body.len());
        } else {
            problems.push("no-teardown: 5 s after the destination's connection was reset the client's stream is still open".into());
        }
    } else {
        // the client fails
        let mut extra_sent = 0usize;
        match sc.variant {
            "reset-idle" => {
                // the endpoint has read everything (the destination has it): its reader is parked
                c.linger(Duration::from_millis(60));
                c.reset_send(sid, 0x10c);
            }
            "reset-both" => c.reset_stream(sid, 0x10c),
            "reset-midframe" => {
                // a DATA frame announcing 2000 octets, of which 700 are sent, then RESET_STREAM
                let mut f = vec![0x00u8, 0x47, 0xd0];
                f.extend_from_slice(&payload(so_total, 700, 7));
                extra_sent = 700;
                c.raw_stream_send(sid, &f, false)?;
                c.linger(Duration::from_millis(30));
                c.reset_send(sid, 0x10c);
            }
            _ => c.close_with(true, 0x10c, b"client gone"),
        }
        let t0 = Instant::now();
        let mut ended = false;
        let mut pings = 0;
        while t0.elapsed() < TEARDOWN {
            if drain_peer(&mut peer, &mut pgot) {
                ended = true;
                break;
            }
            if sc.variant != "conn-close" {
                // the connection stays up and busy
                c.ping();
                pings += 1;
                c.linger(Duration::from_millis(10));
            } else {
                std::thread::sleep(Duration::from_millis(10));
            }
        }
        if pgot.len() > so_total + extra_sent {
            problems.push(format!("data: destination received {} more bytes than the client sent", pgot.len() - so_total - extra_sent));
        } else if let Some(p) = check_prefix(&pgot, 7) {
            problems.push(format!("client->destination: {}", p));
        }
        if !ended {
            problems.push(format!("no-teardown: 5 s after the client's {} the destination's connection is still open", if sc.variant == "conn-close" { "connection was closed" } else { "stream was reset" }));
        }
        if sc.variant != "conn-close" {
            // the connection survived its stream: a second request is still answered
            if c.is_closed() {
                problems.push(format!("connection: the QUIC connection did not survive the reset of one stream ({})", c.close_reason()));
            } else {
                match c.request(&request_headers("CONNECT", "_check", &[]), false) {
                    Ok(s2) => {
                        if !c.run_until(Duration::from_secs(5), |c| c.streams.get(&s2).map(|s| !s.heads.is_empty()).unwrap_or(false)) || c.stream(s2).status(0) != 200 {
                            problems.push(format!("connection: a health check on the same connection after the reset was not answered 200 ({})", c.stream(s2).status(0)));
                        }
                    }
                    Err(e) => problems.push(format!("connection: {}", e)),
                }
            }
            note = format!("{} pings", pings);
        }
    }
    c.close();
    Ok((problems, note))
}

static PANICS: Mutex<Vec<String>> = Mutex::new(Vec::new());

fn main() {
    std::panic::set_hook(Box::new(|info| {
        let mut g = PANICS.lock().unwrap_or_else(|e| e.into_inner());
        if g.len() < 20 {
            g.push(format!("[{}] {}", std::thread::current().name().unwrap_or("?"), info));
        }
    }));
    install_logger();
    let out_path = arg("--out").expect("--out");
    let fv = arg("--fault-vectors").expect("--fault-vectors");
    let only = arg("--only");
    let mut rep = Report::new("c02h3");
    watchdog::arm(&out_path, Duration::from_secs(180));
    let server_rt = tokio::runtime::Builder::new_multi_thread().worker_threads(4).thread_name("endpoint").enable_all().build().unwrap();
    set_forwarder(None);
    let ep = start_endpoint(&server_rt, &EndpointOpts { allow_private: true, establishment_timeout: Duration::from_secs(5), ..Default::default() });
    let mut seen = std::collections::BTreeSet::new();
    let mut n = 0u32;
    for v in read_tagged(&fv, "E2EF") {
        let key = format!("{}|{}|{}", v["so"], v["si"], v["bad"]);
        if !seen.insert(key.clone()) {
            continue;
        }
        rep.count("vectors", 1);
        let strip = |x: &Value, scale: usize| -> Vec<usize> { x.as_array().unwrap().iter().map(|y| y.as_u64().unwrap() as usize).filter(|y| *y != 0 && *y != 100).map(|y| y * UNIT * scale).collect() };
        let bad_in = v["bad"] == "in";
        let variants: &[&str] = if bad_in { &["rst", "rst-mid"] } else { &["reset-idle", "reset-midframe", "reset-both", "conn-close"] };
        for variant in variants {
            if let Some(o) = &only {
                if o != variant {
                    continue;
                }
            }
            // a large download for the mid-transfer reset
            let scale_in = if *variant == "rst-mid" { 150 } else { 1 };
            let so = strip(&v["so"], 1);
            let si = strip(&v["si"], scale_in);
            if *variant == "rst-mid" && si.is_empty() {
                continue;
            }
            let desc = json!({"proto": "h3", "so": v["so"], "si": v["si"], "failing_side": if bad_in { "destination" } else { "client" }, "fault": variant, "unit": UNIT, "download_scale": scale_in});
            rep.eval();
            rep.nontrivial(format!("fault|{}|h3|{}", key, variant));
            rep.count(&format!("variant_{}", variant), 1);
            if rep.evaluations % 11 == 1 {
                rep.sample(desc.clone());
            }
            let d2 = desc.clone();
            watchdog::enter(move || ("pipe-e2e-fault:h3:hang".into(), "fault scenario did not finish".into(), d2));
            n += 1;
            let r = catch(|| run_fault(ep.addr, n, &Scenario { so: &so, si: &si, bad_in, variant })).unwrap_or_else(|p| Err(format!("client panic: {}", p)));
            watchdog::leave();
            match r {
                Err(e) => rep.violation_with(format!("pipe-e2e-fault:h3:{}:setup", variant), e, || desc.clone()),
                Ok((problems, note)) => {
                    if !problems.is_empty() {
                        let class = problems[0].split(':').next().unwrap_or("other").to_string();
                        let class = if class.contains("->") { "data".to_string() } else { class };
                        rep.violation_with(format!("pipe-e2e-fault:h3:{}:{}", variant, class), problems.join("; "), || json!({"scenario": desc, "problems": problems, "note": note}));
                    }
                }
            }
        }
    }
    std::thread::sleep(Duration::from_millis(200));
    if !ep.is_running() {
        rep.violation_with("pipe-e2e-fault:h3:listener-died", "Core::listen returned while HTTP/3 tunnels were being served", || json!({}));
    }
    let panics = PANICS.lock().unwrap_or_else(|e| e.into_inner());
    if !panics.is_empty() {
        rep.violation_with("pipe-e2e-fault:h3:panic", format!("{} panic(s) while serving HTTP/3 tunnels", panics.len()), || json!({"panics": panics.clone()}));
    }
    rep.finish(&out_path);
}
