//! C02 / C14 — the real `pipe::DuplexPipe` driven on scripted endpoints under a hand-polled
//! future and tokio's paused clock. Every call the pipe makes on an endpoint, every
//! environment event and every hook event is recorded as one ndjson line; the trace is
//! validated against Pipe.tla by TLC (PipeTrace.tla).
//!
//! Modes:
//!   --random N        N random schedules (seeded by VERIF_SEED)
//!   --schedules FILE  environment schedules exported by TLC (`<<"SCHED", json>>` lines)
//! Output: --trace FILE (ndjson), --out FILE (result json)

use async_trait::async_trait;
use bytes::Bytes;
use rand::rngs::StdRng;
use rand::{Rng, SeedableRng};
use serde_json::{json, Value};
use std::future::Future;
use std::io;
use std::io::Write as _;
use std::pin::Pin;
use std::sync::{Arc, Mutex};
use std::task::{Context, Poll};
use std::time::Duration;
use trusttunnel::verif;
use trusttunnel::verif::pipe::{duplex_exchange, VData, VSink, VSource};
use ttv::*;

const TICK_MS: u64 = 10;

fn dn(out: bool) -> &'static str {
    if out { "out" } else { "in" }
}

#[derive(Clone, Default)]
struct Fault {
    d: String,
    op: String,
    k: u32,
}

#[derive(Default)]
struct DirState {
    script: Vec<u32>,
    idx: usize,
    avail: bool,
    eof_seen: bool,
    produced: u64, // bytes handed out by the source
    win: usize,
    flush_ok: bool,
    delivered: u64, // bytes accepted by the sink
}

struct World {
    dirs: [DirState; 2], // 0 = out, 1 = in
    fault: Fault,
    fcnt: u32,
}

type Shared = Arc<Mutex<World>>;

fn code(pos: u64) -> u8 {
    (pos % 251) as u8 + 1
}

fn ev(name: &str, fields: String) {
    verif::emit(name, format_args!("{}", fields));
}

impl World {
    /// does the fault hit this call? (counts calls of the faulty (d, op))
    fn hit(&mut self, out: bool, op: &str) -> bool {
        if self.fault.d == dn(out) && self.fault.op == op {
            self.fcnt += 1;
            return self.fcnt == self.fault.k;
        }
        false
    }
}

struct Src {
    out: bool,
    w: Shared,
}
struct Snk {
    out: bool,
    w: Shared,
}

fn injected() -> io::Error {
    io::Error::new(io::ErrorKind::Other, "injected")
}

#[async_trait]
impl VSource for Src {
    async fn read(&mut self) -> io::Result<VData> {
        let out = self.out;
        let w = self.w.clone();
        std::future::poll_fn(move |_cx| {
            let mut g = w.lock().unwrap();
            let i = if out { 0 } else { 1 };
            let d = &mut g.dirs[i];
            if d.eof_seen {
                ev("Read", format!("\"dir\":\"{}\",\"n\":0,\"again\":true", dn(out)));
                return Poll::Ready(Ok(VData::Eof));
            }
            if d.avail && d.idx < d.script.len() {
                let item = d.script[d.idx];
                d.idx += 1;
                d.avail = false;
                ev("Read", format!("\"dir\":\"{}\",\"n\":{},\"again\":false", dn(out), item));
                return Poll::Ready(match item {
                    0 => {
                        d.eof_seen = true;
                        Ok(VData::Eof)
                    }
                    100 => Err(injected()),
                    n => {
                        let v: Vec<u8> = (0..n as u64).map(|k| code(d.produced + 1 + k)).collect();
                        d.produced += n as u64;
                        Ok(VData::Chunk(Bytes::from(v)))
                    }
                });
            }
            Poll::Pending
        })
        .await
    }

    fn consume(&mut self, size: usize) -> io::Result<()> {
        let mut g = self.w.lock().unwrap();
        let bad = g.hit(self.out, "consume");
        ev("Consume", format!("\"dir\":\"{}\",\"n\":{},\"err\":{}", dn(self.out), size, bad));
        if bad { Err(injected()) } else { Ok(()) }
    }
}

#[async_trait]
impl VSink for Snk {
    fn write(&mut self, data: Bytes) -> io::Result<Bytes> {
        let mut g = self.w.lock().unwrap();
        let bad = g.hit(self.out, "write");
        let i = if self.out { 0 } else { 1 };
        let d = &mut g.dirs[i];
        // the offered bytes must be exactly the positions delivered+1 ..: `first` is the
        // position the first offered byte encodes if the whole chunk is consecutive, else 0
        let mut first = d.delivered + 1;
        for (k, b) in data.iter().enumerate() {
            if *b != code(d.delivered + 1 + k as u64) {
                first = 0;
                break;
            }
        }
        if data.is_empty() {
            first = d.delivered + 1;
        }
        if bad {
            ev("Write", format!("\"dir\":\"{}\",\"first\":{},\"len\":{},\"acc\":0,\"err\":true", dn(self.out), first, data.len()));
            return Err(injected());
        }
        let k = data.len().min(d.win);
        d.win -= k;
        d.delivered += k as u64;
        ev("Write", format!("\"dir\":\"{}\",\"first\":{},\"len\":{},\"acc\":{},\"err\":false", dn(self.out), first, data.len(), k));
        Ok(data.slice(k..))
    }

    fn eof(&mut self) -> io::Result<()> {
        let mut g = self.w.lock().unwrap();
        let bad = g.hit(self.out, "eof");
        ev("Eof", format!("\"dir\":\"{}\",\"err\":{}", dn(self.out), bad));
        if bad { Err(injected()) } else { Ok(()) }
    }

    async fn wait_writable(&mut self) -> io::Result<()> {
        let out = self.out;
        let w = self.w.clone();
        std::future::poll_fn(move |_cx| {
            let mut g = w.lock().unwrap();
            let i = if out { 0 } else { 1 };
            if g.dirs[i].win > 0 {
                let bad = g.hit(out, "wait");
                ev("WaitW", format!("\"dir\":\"{}\",\"err\":{}", dn(out), bad));
                return Poll::Ready(if bad { Err(injected()) } else { Ok(()) });
            }
            Poll::Pending
        })
        .await
    }

    async fn flush(&mut self) -> io::Result<()> {
        let out = self.out;
        let w = self.w.clone();
        std::future::poll_fn(move |_cx| {
            let mut g = w.lock().unwrap();
            let i = if out { 0 } else { 1 };
            if g.dirs[i].flush_ok {
                let bad = g.hit(out, "flush");
                ev("Flush", format!("\"dir\":\"{}\",\"err\":{}", dn(out), bad));
                return Poll::Ready(if bad { Err(injected()) } else { Ok(()) });
            }
            Poll::Pending
        })
        .await
    }
}

#[derive(Clone, Debug)]
enum Env {
    Src(bool),
    Win(bool, usize),
    FlushOk(bool),
    Tick,
}

struct RunCfg {
    so: Vec<u32>,
    si: Vec<u32>,
    fault: Fault,
    win0: [usize; 2],
    t_ticks: u64,
    wmax: usize,
}

/// Poll the future until it makes no further progress. Returns Some(result) if it completed.
fn poll_quiescent(fut: &mut Pin<Box<dyn Future<Output = io::Result<()>>>>) -> Option<io::Result<()>> {
    let waker = futures::task::noop_waker();
    let mut cx = Context::from_waker(&waker);
    for _ in 0..10_000 {
        let before = verif::event_count();
        if let Poll::Ready(r) = fut.as_mut().poll(&mut cx) {
            return Some(r);
        }
        if verif::event_count() == before {
            return None;
        }
    }
    panic!("pipe future keeps making progress without end");
}

/// One run: returns the recorded event lines
async fn run_one(cfg: &RunCfg, mut next_env: impl FnMut(&World, bool) -> Option<Vec<Env>>) -> Vec<String> {
    let world: Shared = Arc::new(Mutex::new(World {
        dirs: [
            DirState { script: cfg.so.clone(), win: cfg.win0[0], ..Default::default() },
            DirState { script: cfg.si.clone(), win: cfg.win0[1], ..Default::default() },
        ],
        fault: cfg.fault.clone(),
        fcnt: 0,
    }));
    verif::start_recording();
    ev("Start", format!(
        "\"so\":{:?},\"si\":{:?},\"fault\":{{\"d\":\"{}\",\"op\":\"{}\",\"k\":{}}},\"wo\":{},\"wi\":{},\"T\":{}",
        cfg.so, cfg.si,
        if cfg.fault.d.is_empty() { "none" } else { &cfg.fault.d },
        if cfg.fault.op.is_empty() { "none" } else { &cfg.fault.op },
        cfg.fault.k, cfg.win0[0], cfg.win0[1], cfg.t_ticks));
    let m = move |out: bool, n: usize| ev("Metric", format!("\"dir\":\"{}\",\"n\":{}", dn(out), n));
    let mut fut: Pin<Box<dyn Future<Output = io::Result<()>>>> = Box::pin(duplex_exchange(
        (Box::new(Src { out: true, w: world.clone() }), Box::new(Snk { out: true, w: world.clone() })),
        (Box::new(Src { out: false, w: world.clone() }), Box::new(Snk { out: false, w: world.clone() })),
        Duration::from_millis(cfg.t_ticks * TICK_MS + 1), // +1 ms: never exactly on a tick, so "fires" means strictly after T ticks
        m,
    ));
    let mut done = poll_quiescent(&mut fut);
    let mut quiescent = true;
    while done.is_none() {
        let evs = {
            let g = world.lock().unwrap();
            next_env(&g, quiescent)
        };
        let Some(evs) = evs else { break };
        for e in evs {
            match e {
                Env::Src(out) => {
                    let mut g = world.lock().unwrap();
                    let d = &g.dirs[if out { 0 } else { 1 }];
                    if d.avail || d.idx >= d.script.len() || d.eof_seen {
                        continue; // not enabled in the real run (it may have got ahead of the schedule's model run)
                    }
                    g.dirs[if out { 0 } else { 1 }].avail = true;
                    ev("Src", format!("\"dir\":\"{}\"", dn(out)));
                }
                Env::Win(out, k) => {
                    let mut g = world.lock().unwrap();
                    g.dirs[if out { 0 } else { 1 }].win += k;
                    ev("Win", format!("\"dir\":\"{}\",\"k\":{}", dn(out), k));
                }
                Env::FlushOk(out) => {
                    let mut g = world.lock().unwrap();
                    if g.dirs[if out { 0 } else { 1 }].flush_ok {
                        continue;
                    }
                    g.dirs[if out { 0 } else { 1 }].flush_ok = true;
                    ev("FlushOk", format!("\"dir\":\"{}\"", dn(out)));
                }
                Env::Tick => {
                    ev("Tick", String::new());
                    tokio::time::advance(Duration::from_millis(TICK_MS)).await;
                }
            }
        }
        done = poll_quiescent(&mut fut);
        quiescent = true;
    }
    match &done {
        Some(Ok(())) => ev("Ret", "\"res\":\"ok\"".into()),
        Some(Err(e)) if e.kind() == io::ErrorKind::TimedOut => ev("Ret", "\"res\":\"timeout\"".into()),
        Some(Err(_)) => ev("Ret", "\"res\":\"err\"".into()),
        None => ev("Abandon", String::new()),
    }
    drop(fut);
    let _ = cfg.wmax;
    verif::stop_recording()
}

fn random_cfg(rng: &mut StdRng) -> RunCfg {
    let mut script = |rng: &mut StdRng| -> Vec<u32> {
        let n = rng.gen_range(0..4);
        let mut v: Vec<u32> = (0..n).map(|_| rng.gen_range(1..5)).collect();
        match rng.gen_range(0..10) {
            0..=5 => v.push(0),
            6 => v.push(100),
            _ => {}
        }
        v
    };
    let so = script(rng);
    let si = script(rng);
    let fault = if rng.gen_range(0..4) == 0 {
        let ops = ["wait", "write", "consume", "eof", "flush"];
        Fault { d: dn(rng.gen()).to_string(), op: ops[rng.gen_range(0..ops.len())].to_string(), k: rng.gen_range(1..3) }
    } else {
        Fault::default()
    };
    RunCfg { so, si, fault, win0: [rng.gen_range(0..4), rng.gen_range(0..4)], t_ticks: 3, wmax: 6 }
}

fn main() {
    quiet_panics();
    logcap::install();
    let out_path = arg("--out").expect("--out");
    let trace_path = arg("--trace").expect("--trace");
    let mut rep = Report::new("c02");
    watchdog::arm(&out_path, Duration::from_secs(20));
    let rt = tokio::runtime::Builder::new_current_thread().enable_time().start_paused(true).build().unwrap();
    let mut tf = std::io::BufWriter::new(std::fs::File::create(&trace_path).unwrap());
    let mut total_events = 0u64;
    let mut runs = 0u64;

    if let Some(n) = arg("--random") {
        let n: u64 = n.parse().unwrap();
        let mut rng = StdRng::seed_from_u64(seed().wrapping_mul(7919).wrapping_add(17));
        for run in 0..n {
            let cfg = random_cfg(&mut rng);
            let mut steps = 0;
            let max_steps = rng.gen_range(5..60);
            let mut r2 = StdRng::seed_from_u64(rng.gen());
            let wmax = cfg.wmax;
            let desc = json!({"so": cfg.so, "si": cfg.si, "fault": {"d": cfg.fault.d, "op": cfg.fault.op, "k": cfg.fault.k}, "run": run});
            let d2 = desc.clone();
            watchdog::enter(move || ("pipe:hang".into(), "DuplexPipe::exchange did not return from poll".into(), d2));
            let lines = rt.block_on(run_one(&cfg, |w, _q| {
                steps += 1;
                if steps > max_steps {
                    return None;
                }
                let mut batch = Vec::new();
                let k = r2.gen_range(1..3);
                for _ in 0..k {
                    let out: bool = r2.gen();
                    let d = &w.dirs[if out { 0 } else { 1 }];
                    match r2.gen_range(0..10) {
                        0..=2 if !d.avail && d.idx < d.script.len() && !d.eof_seen => batch.push(Env::Src(out)),
                        3..=4 if d.win < wmax => batch.push(Env::Win(out, r2.gen_range(1..3))),
                        5 if !d.flush_ok => batch.push(Env::FlushOk(out)),
                        _ => {}
                    }
                }
                // the same endpoint must not be made ready twice in one batch
                batch.dedup_by(|a, b| matches!((a, b), (Env::Src(x), Env::Src(y)) | (Env::FlushOk(x), Env::FlushOk(y)) if x == y));
                if batch.is_empty() {
                    batch.push(Env::Tick);
                }
                Some(batch)
            }));
            watchdog::leave();
            rep.eval();
            runs += 1;
            total_events += lines.len() as u64;
            let sig: Vec<&str> = lines.iter().filter_map(|l| l.split("\"ev\":\"").nth(1).and_then(|x| x.split('"').next())).collect();
            if sig.iter().any(|e| *e == "XC" || *e == "TOD") || cfg.fault.k > 0 || sig.iter().any(|e| *e == "WaitW") {
                rep.nontrivial(format!("{:?}", sig));
            }
            if run < 3 {
                rep.sample(json!({"cfg": desc, "events": lines.iter().take(30).collect::<Vec<_>>()}));
            }
            for l in &lines {
                writeln!(tf, "{}", l).unwrap();
            }
        }
    }

    if let Some(path) = arg("--schedules") {
        for s in read_tagged(&path, "SCHED") {
            let arr = |v: &Value| -> Vec<u32> { v.as_array().unwrap().iter().map(|x| x.as_u64().unwrap() as u32).collect() };
            let f = &s["fault"];
            let cfg = RunCfg {
                so: arr(&s["so"]),
                si: arr(&s["si"]),
                fault: if f["d"] == "none" { Fault::default() } else { Fault { d: f["d"].as_str().unwrap().into(), op: f["op"].as_str().unwrap().into(), k: f["k"].as_u64().unwrap() as u32 } },
                win0: [s["wo"].as_u64().unwrap() as usize, s["wi"].as_u64().unwrap() as usize],
                t_ticks: s["T"].as_u64().unwrap(),
                wmax: 100,
            };
            let envs: Vec<Env> = s["env"].as_array().unwrap().iter().map(|e| {
                let out = e["d"].as_str() == Some("out");
                match e["e"].as_str().unwrap() {
                    "Src" => Env::Src(out),
                    "Win" => Env::Win(out, e["k"].as_u64().unwrap() as usize),
                    "FlushOk" => Env::FlushOk(out),
                    "Tick" => Env::Tick,
                    x => panic!("unknown env event {}", x),
                }
            }).collect();
            let mut it = envs.into_iter();
            let d2 = s.clone();
            watchdog::enter(move || ("pipe:hang".into(), "DuplexPipe::exchange did not return from poll".into(), d2));
            let lines = rt.block_on(run_one(&cfg, |_w, _q| it.next().map(|e| vec![e])));
            watchdog::leave();
            rep.eval();
            runs += 1;
            total_events += lines.len() as u64;
            rep.nontrivial(format!("{}", s));
            if runs % 500 == 1 {
                rep.sample(json!({"schedule": s, "events": lines.iter().take(30).collect::<Vec<_>>()}));
            }
            for l in &lines {
                writeln!(tf, "{}", l).unwrap();
            }
        }
    }
    tf.flush().unwrap();
    rep.count("runs", runs);
    rep.count("events", total_events);
    rep.finish(&out_path);
}
