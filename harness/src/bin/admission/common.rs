//! Shared by c04.rs and c12.rs: test certificate, real ClientHellos from the rustls client
//! of the lock file, and byte surgery on them (random field, extra extensions, record
//! fragmentation). No expectations live here: what a hello *means* comes from TLC.
#![allow(dead_code)]

use rustls::client::{ServerCertVerified, ServerCertVerifier};
use rustls::{Certificate, ClientConfig, ClientConnection, ServerName};
use std::sync::Arc;
use std::time::SystemTime;

pub const CERT_KEY_PEM: &str = include_str!("localhost.pem");
pub const MAIN_HOST: &str = "localhost";

/// Write the test certificate + key next to the job's other scratch files
pub fn write_cert(dir: &str) -> String {
    let p = format!("{}/localhost.pem", dir);
    std::fs::write(&p, CERT_KEY_PEM).expect("write cert");
    p
}

pub struct NoVerify;

impl ServerCertVerifier for NoVerify {
    fn verify_server_cert(
        &self,
        _: &Certificate,
        _: &[Certificate],
        _: &ServerName,
        _: &mut dyn Iterator<Item = &[u8]>,
        _: &[u8],
        _: SystemTime,
    ) -> Result<ServerCertVerified, rustls::Error> {
        Ok(ServerCertVerified::assertion())
    }
}

pub fn client_config(alpn: &[&str]) -> Arc<ClientConfig> {
    let mut config = ClientConfig::builder()
        .with_safe_defaults()
        .with_custom_certificate_verifier(Arc::new(NoVerify))
        .with_no_client_auth();
    for a in alpn {
        config.alpn_protocols.push(a.as_bytes().to_vec());
    }
    Arc::new(config)
}

/// The first flight of a real rustls client: one TLS record holding the ClientHello
pub fn client_hello_record(sni: &str, alpn: &[&str]) -> Vec<u8> {
    let mut conn = ClientConnection::new(client_config(alpn), ServerName::try_from(sni).expect("sni")).expect("client");
    let mut out = Vec::new();
    while conn.wants_write() {
        conn.write_tls(&mut out).expect("write_tls");
    }
    out
}

/// A ClientHello handshake message (type + 24-bit length + body) taken out of its record
#[derive(Clone)]
pub struct Hello {
    pub rec_version: [u8; 2],
    pub msg: Vec<u8>,
}

pub const RANDOM_AT: usize = 4 + 2; // within the handshake message

impl Hello {
    pub fn from_record(rec: &[u8]) -> Hello {
        assert!(rec.len() >= 9 && rec[0] == 22, "not a handshake record");
        let len = u16::from_be_bytes([rec[3], rec[4]]) as usize;
        assert_eq!(rec.len(), 5 + len, "client wrote more than one record");
        let msg = rec[5..].to_vec();
        assert_eq!(msg[0], 1, "not a ClientHello");
        let hl = ((msg[1] as usize) << 16) | ((msg[2] as usize) << 8) | msg[3] as usize;
        assert_eq!(hl + 4, msg.len());
        Hello { rec_version: [rec[1], rec[2]], msg }
    }

    pub fn real(sni: &str, alpn: &[&str]) -> Hello {
        Hello::from_record(&client_hello_record(sni, alpn))
    }

    pub fn random(&self) -> Vec<u8> {
        self.msg[RANDOM_AT..RANDOM_AT + 32].to_vec()
    }

    pub fn set_random(&mut self, r: &[u8]) {
        assert_eq!(r.len(), 32);
        self.msg[RANDOM_AT..RANDOM_AT + 32].copy_from_slice(r);
    }

    /// offset (in msg) of the 2-byte total extensions length
    fn ext_len_at(&self) -> usize {
        let mut p = 4 + 2 + 32;
        p += 1 + self.msg[p] as usize; // session id
        p += 2 + u16::from_be_bytes([self.msg[p], self.msg[p + 1]]) as usize; // cipher suites
        p += 1 + self.msg[p] as usize; // compression methods
        p
    }

    fn fix_lengths(&mut self, ext_at: usize) {
        let ext_total = self.msg.len() - ext_at - 2;
        assert!(ext_total <= 0xffff, "extensions block too large");
        self.msg[ext_at..ext_at + 2].copy_from_slice(&(ext_total as u16).to_be_bytes());
        let hl = self.msg.len() - 4;
        self.msg[1] = (hl >> 16) as u8;
        self.msg[2] = (hl >> 8) as u8;
        self.msg[3] = hl as u8;
    }

    /// Append one extension (type, body) at the end of the extensions block
    pub fn push_extension(&mut self, typ: u16, body: &[u8]) {
        let at = self.ext_len_at();
        self.msg.extend_from_slice(&typ.to_be_bytes());
        self.msg.extend_from_slice(&(body.len() as u16).to_be_bytes());
        self.msg.extend_from_slice(body);
        self.fix_lengths(at);
    }

    /// Grow the message to exactly `target` bytes (handshake header included) with an
    /// RFC 7685 padding extension; `None` if it cannot be hit (needs >= 4 more bytes)
    pub fn padded_to(&self, target: usize) -> Option<Hello> {
        if target < self.msg.len() + 4 {
            return None;
        }
        let mut h = self.clone();
        let pad = target - self.msg.len() - 4;
        if pad > 0xffff {
            return None;
        }
        h.push_extension(21, &vec![0u8; pad]);
        if h.msg.len() == target {
            Some(h)
        } else {
            None
        }
    }

    /// Put a large (post-quantum sized) share in front of the real one inside key_share
    pub fn with_big_key_share(&self, group: u16, size: usize) -> Option<Hello> {
        let at = self.ext_len_at();
        let mut p = at + 2;
        while p + 4 <= self.msg.len() {
            let typ = u16::from_be_bytes([self.msg[p], self.msg[p + 1]]);
            let len = u16::from_be_bytes([self.msg[p + 2], self.msg[p + 3]]) as usize;
            if typ == 51 {
                // key_share: ext len(2) | client_shares len(2) | entries
                let mut h = self.clone();
                let mut entry = Vec::with_capacity(size + 4);
                entry.extend_from_slice(&group.to_be_bytes());
                entry.extend_from_slice(&(size as u16).to_be_bytes());
                entry.extend((0..size).map(|i| (i * 7 + 3) as u8));
                let list_len = u16::from_be_bytes([self.msg[p + 4], self.msg[p + 5]]) as usize + entry.len();
                let ext_len = len + entry.len();
                if ext_len > 0xffff {
                    return None;
                }
                h.msg[p + 2..p + 4].copy_from_slice(&(ext_len as u16).to_be_bytes());
                h.msg[p + 4..p + 6].copy_from_slice(&(list_len as u16).to_be_bytes());
                let tail = h.msg.split_off(p + 6);
                h.msg.extend_from_slice(&entry);
                h.msg.extend_from_slice(&tail);
                h.fix_lengths(at);
                return Some(h);
            }
            p += 4 + len;
        }
        None
    }

    /// The flight as TLS records whose payload sizes are `sizes` (the last record takes the rest)
    pub fn to_records(&self, sizes: &[usize]) -> Vec<u8> {
        let mut out = Vec::with_capacity(self.msg.len() + 5 * (sizes.len() + 1));
        let mut pos = 0;
        let mut i = 0;
        while pos < self.msg.len() {
            let n = if i < sizes.len() { sizes[i].min(self.msg.len() - pos) } else { self.msg.len() - pos };
            assert!(n > 0 && n <= 0xffff);
            out.push(22);
            out.extend_from_slice(&self.rec_version);
            out.extend_from_slice(&(n as u16).to_be_bytes());
            out.extend_from_slice(&self.msg[pos..pos + n]);
            pos += n;
            i += 1;
        }
        out
    }

    pub fn one_record(&self) -> Vec<u8> {
        self.to_records(&[])
    }
}

/// A port that was free a moment ago on `ip`
pub fn free_port(ip: std::net::IpAddr) -> u16 {
    let l = std::net::TcpListener::bind((ip, 0)).expect("bind port 0");
    l.local_addr().unwrap().port()
}
