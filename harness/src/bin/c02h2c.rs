//! C02 on HTTP/2 — SEVERAL tunnels of one session under flow control: the vectors of spec/StreamWake.tla (tag "CREDIT",
//! see c02h3c.rs) replayed through the real HTTP/2 codec (`verif::tunnel::serve_tunnel`: Http2Codec -> Tunnel ->
//! DuplexPipe -> the real TcpForwarder -> TCP destinations on loopback) with an `h2` client whose stream / connection
//! windows are the vector's (unit = 32 KiB: an HTTP/2 connection window cannot be smaller than 65535) and whose
//! application takes the DATA of a stream - and releases its capacity - only when the vector says so. N CONNECT streams
//! on ONE connection, every destination pushes its position-coded download (own salt per tunnel) and closes; the client
//! serves the streams in the vector's order (everything that is buffered on that stream), letting the endpoint settle
//! (60 ms) after each step, then reads everything that is still to come. Compared with the vector: the bytes of every
//! tunnel, exactly, and the clean end of every stream.

use bytes::Bytes;
use futures::StreamExt;
use serde_json::{json, Value};
use std::collections::BTreeSet;
use std::time::{Duration, Instant};
use tokio::io::{AsyncReadExt, AsyncWriteExt};
use tokio::net::TcpListener;
use trusttunnel::core::Core;
use trusttunnel::verif::tunnel::{serve_tunnel, set_forwarder, VProto};
use ttv::tunnel_env::*;
use ttv::*;

const UNIT: usize = 32 * 1024;

fn code(pos: usize, salt: u8) -> u8 {
    ((pos % 251) as u8).wrapping_add(salt) | 1
}

fn salt_of(i: usize) -> u8 {
    (17 + 40 * i) as u8
}

struct Tun {
    recv: h2::RecvStream,
    _send: h2::SendStream<Bytes>,
    body: Vec<u8>,
    ended: bool,
    error: Option<String>,
}

/// the application takes what is buffered on the stream right now, then releases its capacity (what the endpoint sends
/// in answer to that belongs to the next step)
async fn take_buffered(t: &mut Tun) -> usize {
    use futures::FutureExt;
    let mut n = 0;
    while !t.ended {
        match t.recv.data().now_or_never() {
            None => break,
            Some(None) => t.ended = true,
            Some(Some(Ok(ch))) => {
                n += ch.len();
                t.body.extend_from_slice(&ch);
            }
            Some(Some(Err(e))) => {
                t.error = Some(e.to_string());
                t.ended = true;
            }
        }
    }
    if n > 0 {
        let _ = t.recv.flow_control().release_capacity(n);
    }
    n
}

struct Outcome {
    problems: Vec<(String, String)>,
    steps_served: usize,
    steps: usize,
    after_order: Vec<usize>,
}

async fn run_vector(core: &'static Core, v: Value) -> Result<Outcome, String> {
    let nt = v["n"].as_u64().unwrap() as usize;
    let sw = v["sw"].as_u64().unwrap() as usize * UNIT;
    let cw = v["cw"].as_u64().unwrap() as usize * UNIT;
    let d: Vec<usize> = v["d"].as_array().unwrap().iter().map(|x| x.as_u64().unwrap() as usize * UNIT).collect();
    let order: Vec<usize> = v["order"].as_array().unwrap().iter().map(|x| x.as_u64().unwrap() as usize - 1).collect();
    let exp_delivered: Vec<usize> = v["expect"]["delivered"].as_array().unwrap().iter().map(|x| x.as_u64().unwrap() as usize * UNIT).collect();
    let exp_ended: Vec<bool> = v["expect"]["ended"].as_array().unwrap().iter().map(|x| x.as_bool().unwrap()).collect();
    let to = Duration::from_secs(10);

    let (client, server) = tokio::io::duplex(1 << 16);
    let tunnel = tokio::spawn(async move {
        let _ = serve_tunnel(core, VProto::Http2, server, peer_addr(), "localhost".into(), None).await;
    });
    let (mut send, conn) = tokio::time::timeout(to, h2::client::Builder::new().initial_window_size(sw as u32).initial_connection_window_size(cw as u32).handshake::<_, Bytes>(client))
        .await.map_err(|_| "h2 handshake")?.map_err(|e| e.to_string())?;
    let conn_task = tokio::spawn(async move {
        let _ = conn.await;
    });
    let mut tuns: Vec<Tun> = vec![];
    let mut peers = vec![];
    for i in 0..nt {
        let listener = TcpListener::bind("127.0.0.1:0").await.map_err(|e| e.to_string())?;
        let target = format!("127.0.0.1:{}", listener.local_addr().unwrap().port());
        let r = http::Request::builder().method("CONNECT").uri(target.as_str()).body(()).unwrap();
        send = tokio::time::timeout(to, send.ready()).await.map_err(|_| "h2 not ready")?.map_err(|e| e.to_string())?;
        let (resp, stream) = send.send_request(r, false).map_err(|e| e.to_string())?;
        let resp = tokio::time::timeout(to, resp).await.map_err(|_| format!("CONNECT of tunnel {} not answered", i + 1))?.map_err(|e| e.to_string())?;
        if resp.status() != 200 {
            return Err(format!("CONNECT of tunnel {} answered {}", i + 1, resp.status()));
        }
        let (peer, _) = tokio::time::timeout(to, listener.accept()).await.map_err(|_| "destination saw no connection")?.map_err(|e| e.to_string())?;
        peers.push(peer);
        tuns.push(Tun { recv: resp.into_body(), _send: stream, body: vec![], ended: false, error: None });
    }
    // every tunnel is established before any destination speaks
    let mut writers = vec![];
    for (i, mut peer) in peers.into_iter().enumerate() {
        let total = d[i];
        let salt = salt_of(i);
        writers.push(tokio::spawn(async move {
            let data: Vec<u8> = (0..total).map(|k| code(k, salt)).collect();
            let r = tokio::time::timeout(Duration::from_secs(40), async {
                peer.write_all(&data).await?;
                peer.shutdown().await
            }).await;
            let mut b = [0u8; 256];
            let _ = tokio::time::timeout(Duration::from_secs(40), async {
                while let Ok(k) = peer.read(&mut b).await {
                    if k == 0 {
                        break;
                    }
                }
            }).await;
            match r {
                Ok(Ok(())) => Ok(()),
                Ok(Err(e)) => Err(e.to_string()),
                Err(_) => Err("could not push its download within 40 s".to_string()),
            }
        }));
    }
    let settle = Duration::from_millis(60);
    tokio::time::sleep(settle).await;
    let mut served = 0;
    for &i in &order {
        if take_buffered(&mut tuns[i]).await > 0 {
            served += 1;
        }
        tokio::time::sleep(settle).await;
    }
    let after_order: Vec<usize> = tuns.iter().map(|t| t.body.len()).collect();
    // whatever is still to come; "stalled" = nothing at all arrived on any tunnel for 6 s while the client reads everything
    let deadline = Instant::now() + Duration::from_secs(30);
    let mut last_progress = Instant::now();
    loop {
        let mut got = 0;
        for t in tuns.iter_mut() {
            let was = t.ended;
            got += take_buffered(t).await + (t.ended != was) as usize;
        }
        if got > 0 {
            last_progress = Instant::now();
        } else {
            tokio::time::sleep(Duration::from_millis(3)).await;
        }
        if tuns.iter().all(|t| t.ended) || Instant::now() >= deadline || last_progress.elapsed() > Duration::from_secs(6) {
            break;
        }
    }
    let mut problems = vec![];
    for (i, t) in tuns.iter().enumerate() {
        let salt = salt_of(i);
        let k = i + 1;
        if let Some(p) = t.body.iter().enumerate().position(|(k, b)| *b != code(k, salt)) {
            problems.push(("data".to_string(), format!("tunnel {}: byte {} is not the destination's (reordered, duplicated, corrupted or another tunnel's)", k, p)));
        } else if t.body.len() > exp_delivered[i] {
            problems.push(("data".to_string(), format!("tunnel {}: {} bytes more than the destination sent", k, t.body.len() - exp_delivered[i])));
        } else if t.body.len() < exp_delivered[i] {
            if t.ended {
                problems.push(("truncated".to_string(), format!("tunnel {}: the stream ended (error {:?}) after {} of {} bytes", k, t.error, t.body.len(), exp_delivered[i])));
            } else {
                problems.push(("stalled".to_string(), format!("tunnel {}: the download stalled after {} of {} bytes although the client reads everything and both peers are alive", k, t.body.len(), exp_delivered[i])));
            }
        } else if exp_ended[i] && (!t.ended || t.error.is_some()) {
            problems.push(("no-end".to_string(), format!("tunnel {}: everything was delivered but the stream did not end cleanly ({:?})", k, t.error)));
        }
    }
    drop(tuns);
    drop(send);
    for (i, w) in writers.into_iter().enumerate() {
        if problems.is_empty() {
            match w.await {
                Ok(Ok(())) => (),
                Ok(Err(e)) => problems.push(("destination".to_string(), format!("tunnel {}: the destination {}", i + 1, e))),
                Err(_) => problems.push(("destination".to_string(), format!("tunnel {}: destination task panicked", i + 1))),
            }
        } else {
            w.abort();
        }
    }
    conn_task.abort();
    tunnel.abort();
    Ok(Outcome { problems, steps_served: served, steps: order.len(), after_order })
}

fn fnv(seed: u64, key: &str) -> u64 {
    let mut h: u64 = 0xcbf29ce484222325 ^ seed.wrapping_mul(0x9e3779b97f4a7c15);
    for b in key.as_bytes() {
        h ^= *b as u64;
        h = h.wrapping_mul(0x100000001b3);
    }
    h ^ (h >> 29)
}

static PANICS: std::sync::Mutex<Vec<String>> = std::sync::Mutex::new(Vec::new());

/// the credit of the session: uploads that end their stream with the last DATA frame (END_STREAM on data) on tunnels that stay
/// open for their download. The endpoint's connection window is 65535; seven tunnels upload 13107 octets each in turn: every
/// destination receives its upload - the connection-level credit of forwarded octets is returned whatever the stream's state
async fn run_uploads(core: &'static Core) -> Result<Vec<String>, String> {
    let to = Duration::from_secs(10);
    let (client, server) = tokio::io::duplex(1 << 16);
    let tunnel = tokio::spawn(async move { let _ = serve_tunnel(core, VProto::Http2, server, peer_addr(), "localhost".into(), None).await; });
    let (mut send, conn) = tokio::time::timeout(to, h2::client::Builder::new().handshake::<_, Bytes>(client)).await.map_err(|_| "h2 handshake")?.map_err(|e| e.to_string())?;
    let conn_task = tokio::spawn(async move { let _ = conn.await; });
    let mut problems = vec![];
    let mut keep = vec![];
    for i in 0..7usize {
        let listener = TcpListener::bind("127.0.0.1:0").await.map_err(|e| e.to_string())?;
        let target = format!("127.0.0.1:{}", listener.local_addr().unwrap().port());
        let r = http::Request::builder().method("CONNECT").uri(target.as_str()).body(()).unwrap();
        send = tokio::time::timeout(to, send.ready()).await.map_err(|_| "h2 not ready")?.map_err(|e| e.to_string())?;
        let (resp, mut stream) = send.send_request(r, false).map_err(|e| e.to_string())?;
        let resp = tokio::time::timeout(to, resp).await.map_err(|_| format!("CONNECT of tunnel {} not answered", i + 1))?.map_err(|e| e.to_string())?;
        if resp.status() != 200 { return Err(format!("CONNECT of tunnel {} answered {}", i + 1, resp.status())); }
        let (mut peer, _) = tokio::time::timeout(to, listener.accept()).await.map_err(|_| "destination saw no connection")?.map_err(|e| e.to_string())?;
        let n = 13107usize;
        let data: Vec<u8> = (0..n).map(|k| code(k, salt_of(i))).collect();
        // one DATA frame, END_STREAM on it (the window of a fresh stream takes it whole if the session has credit)
        stream.reserve_capacity(n);
        let mut sent = 0;
        let t0 = tokio::time::Instant::now();
        while sent < n && t0.elapsed() < Duration::from_secs(3) {
            match tokio::time::timeout(Duration::from_millis(300), std::future::poll_fn(|cx| stream.poll_capacity(cx))).await {
                Ok(Some(Ok(cap))) if cap > 0 => { let k = cap.min(n - sent); let _ = stream.send_data(Bytes::copy_from_slice(&data[sent..sent + k]), sent + k == n); sent += k; }
                _ => {}
            }
        }
        let mut got = vec![0u8; n];
        let mut have = 0;
        let t1 = tokio::time::Instant::now();
        while have < n && t1.elapsed() < Duration::from_secs(3) {
            match tokio::time::timeout(Duration::from_millis(300), peer.read(&mut got[have..])).await { Ok(Ok(0)) => break, Ok(Ok(k)) => have += k, _ => {} }
        }
        if have != n || got[..have] != data[..have] {
            problems.push(format!("tunnel {}: the destination received {} of the {} uploaded octets ({} left the client: the session ran out of credit)", i + 1, have, n, sent));
            break;
        }
        // the tunnel stays open for its download: the destination and the client's stream are kept
        keep.push((peer, stream, resp));
    }
    drop(keep);
    drop(send);
    conn_task.abort();
    tunnel.abort();
    Ok(problems)
}

fn main() {
    std::panic::set_hook(Box::new(|info| {
        let mut g = PANICS.lock().unwrap_or_else(|e| e.into_inner());
        if g.len() < 20 {
            g.push(format!("[{}] {}", std::thread::current().name().unwrap_or("?"), info));
        }
    }));
    logcap::install();
    let out_path = arg("--out").expect("--out");
    let max_per_file: usize = arg_or("--max-per-file", "0").parse().unwrap();
    let mut rep = Report::new("c02h2c");
    watchdog::arm(&out_path, Duration::from_secs(420));
    let mut vectors: Vec<Value> = vec![];
    let argv: Vec<String> = std::env::args().collect();
    for (k, a) in argv.iter().enumerate() {
        if a != "--vectors" {
            continue;
        }
        let mut seen = BTreeSet::new();
        let mut file: Vec<Value> = vec![];
        for v in read_tagged(&argv[k + 1], "CREDIT") {
            rep.count("tlc_lines", 1);
            if seen.insert(v.to_string()) {
                file.push(v);
            }
        }
        rep.count("vectors", file.len() as u64);
        if max_per_file > 0 && file.len() > max_per_file {
            file.sort_by_key(|v| fnv(seed(), &v.to_string()));
            rep.count("vectors_left_to_thorough", (file.len() - max_per_file) as u64);
            file.truncate(max_per_file);
        }
        vectors.extend(file);
    }
    let rt = tokio::runtime::Builder::new_multi_thread().worker_threads(4).enable_all().build().unwrap();
    set_forwarder(None);
    let descs = vectors.clone();
    watchdog::enter(move || ("stream-credit:h2:hang".into(), "a scenario with several tunnels on one HTTP/2 session did not finish".into(), json!({"vectors": descs.len()})));
    let failed = std::sync::Arc::new(std::sync::atomic::AtomicUsize::new(0));
    let results: Vec<(Value, Option<Result<Outcome, String>>)> = rt.block_on(async {
        futures::stream::iter(vectors.into_iter().map(|v| {
            let failed = failed.clone();
            async move {
                // a few failing scenarios tell the story: the rest is not run
                if failed.load(std::sync::atomic::Ordering::Relaxed) >= 4 {
                    return (v, None);
                }
                let core: &'static Core = Box::leak(Box::new(make_core(&CoreOpts { allow_private: true, ..Default::default() })));
                let r = match tokio::spawn(run_vector(core, v.clone())).await {
                    Ok(r) => r,
                    Err(e) => Err(format!("client panic: {}", e)),
                };
                if !matches!(&r, Ok(o) if o.problems.is_empty()) {
                    failed.fetch_add(1, std::sync::atomic::Ordering::Relaxed);
                }
                (v, Some(r))
            }
        }))
        .buffer_unordered(6)
        .collect()
        .await
    });
    watchdog::leave();
    for (i, (v, r)) in results.into_iter().enumerate() {
        let Some(r) = r else {
            rep.count("not_run_after_failures", 1);
            continue;
        };
        let nt = v["n"].as_u64().unwrap();
        rep.eval();
        rep.nontrivial(format!("credit|h2|{}|{}|{}|{}|{}", nt, v["sw"], v["cw"], v["d"], v["order"]));
        rep.count(&format!("tunnels_{}", nt), 1);
        let desc = json!({"proto": "h2", "tunnels": nt, "unit": UNIT, "stream_window_units": v["sw"], "connection_window_units": v["cw"], "download_units": v["d"], "client_serves": v["order"], "expected": v["expect"]});
        match r {
            Err(e) => rep.violation_with(format!("stream-credit:h2:n={}:setup", nt), e, || desc.clone()),
            Ok(o) => {
                rep.count("steps", o.steps as u64);
                rep.count("steps_served", o.steps_served as u64);
                if i % 23 == 1 {
                    rep.sample(json!({"scenario": desc, "octets_after_the_scripted_order": o.after_order, "steps_with_data": o.steps_served}));
                }
                if !o.problems.is_empty() {
                    let class = o.problems[0].0.clone();
                    let texts: Vec<String> = o.problems.iter().map(|p| p.1.clone()).collect();
                    rep.violation_with(format!("stream-credit:h2:n={}:{}", nt, class), texts.join("; "), || json!({"scenario": desc, "problems": texts, "octets_after_the_scripted_order": o.after_order}));
                }
            }
        }
    }
    let panics = PANICS.lock().unwrap_or_else(|e| e.into_inner());
    if !panics.is_empty() {
        rep.violation_with("stream-credit:h2:panic", format!("{} panic(s) while serving HTTP/2 tunnels", panics.len()), || json!({"panics": panics.clone()}));
    }
    // ---- the session's credit across tunnels whose upload ended with END_STREAM on data
    {
        let core: &'static Core = Box::leak(Box::new(make_core(&CoreOpts { allow_private: true, h2_connection_window: Some(65535), ..Default::default() })));
        let desc = json!({"proto": "h2", "kind": "session-credit", "endpoint_connection_window": 65535, "tunnels": 7, "upload_each": 13107, "end_stream": "on the last DATA frame", "tunnels_stay_open": true});
        let d2 = desc.clone();
        watchdog::enter(move || ("stream-credit:h2:hang".into(), "session-credit scenario did not finish".into(), d2));
        let r = catch(|| rt.block_on(run_uploads(core))).unwrap_or_else(|p| Err(format!("panic: {}", p)));
        watchdog::leave();
        rep.eval();
        rep.nontrivial("session-credit");
        match r {
            Err(e) => rep.violation_with("stream-credit:h2:session-credit:setup", e, || desc.clone()),
            Ok(p) if p.is_empty() => rep.count("session_credit_runs", 1),
            Ok(p) => rep.violation_with("stream-credit:h2:session-credit", p.join("; "), || json!({"scenario": desc, "problems": p})),
        }
    }
    rep.finish(&out_path);
}
