//! C18 over HTTP/3 — the request heads TLC enumerates from Services.tla for protocol "h3"
//! (MCServicesH3: speedtest host, ping host, every routing row of the tunnel host, the reverse-proxy
//! host) sent by a quiche client to a listening `Core` (`Core::listen` -> `listen_udp` ->
//! `QuicMultiplexer` -> `on_new_quic_connection` -> `Http3Codec` -> ping / speedtest / reverse-proxy
//! handlers and `HttpDownstream`'s per-request routing). The oracle is the vector's `expect` set.

#[path = "../h3client.rs"]
mod h3client;
#[path = "../h3env.rs"]
mod h3env;

use h3client::*;
use h3env::*;
use serde_json::{json, Value};
use std::collections::HashMap;
use std::io::{Read, Write};
use std::net::SocketAddr;
use std::sync::atomic::{AtomicUsize, Ordering};
use std::sync::{Arc, Mutex};
use std::time::{Duration, Instant};
use ttv::*;

static ZEROS: [u8; 1 << 20] = [0u8; 1 << 20];
const QUIET: Duration = Duration::from_millis(60);
const PAUSE: Duration = Duration::from_millis(150);
const WAIT: Duration = Duration::from_secs(30);
const ORIGIN_BODY: &[u8] = b"ORIGIN-OK";

fn text(v: &Value) -> String {
    v.as_array().map(|a| a.iter().map(|c| c.as_str().unwrap_or("")).collect::<String>()).unwrap_or_default()
}

#[derive(Clone, Debug)]
struct Vector {
    host: String,
    id: String,
    method: String,
    target: String,
    headers: Vec<(String, String)>,
    cl: Option<String>,
    cfg: Value,
    channel: String,
    expect: Vec<Value>,
    forward: Value,
}

impl Vector {
    fn parse(v: &Value) -> Self {
        let req = &v["req"];
        Self {
            host: v["host"].as_str().unwrap().into(),
            id: req["id"].as_str().unwrap().into(),
            method: req["method"].as_str().unwrap().into(),
            target: text(&req["target"]),
            headers: req["headers"].as_array().unwrap().iter().map(|h| (h[0].as_str().unwrap().to_string(), h[1].as_str().unwrap().to_string())).collect(),
            cl: if req["cl"]["present"].as_bool().unwrap() { Some(text(&req["cl"]["text"])) } else { None },
            cfg: v["cfg"].clone(),
            channel: v["channel"].as_str().unwrap().into(),
            expect: v["expect"].as_array().unwrap().clone(),
            forward: v["forward"].clone(),
        }
    }

    fn desc(&self) -> Value {
        json!({"host": self.host, "proto": "h3", "id": self.id, "method": self.method, "target": self.target, "headers": self.headers, "content_length": self.cl,
               "cfg": {"speedtest_enable": self.cfg["speedtest"], "reverse_proxy": if self.cfg["rp"]["on"] == true { json!({"path_mask": text(&self.cfg["rp"]["mask"])}) } else { Value::Null }, "allow_private_network_connections": self.cfg["allowPrivate"]},
               "expect": self.expect, "channel": self.channel})
    }

    fn expects(&self, k: &str) -> Option<&Value> {
        self.expect.iter().find(|o| o["k"] == k)
    }

    fn upload_len(&self) -> Option<u64> {
        self.expects("upload").map(|o| o["n"].as_u64().unwrap())
    }

    fn max_download(&self) -> u64 {
        self.expect.iter().filter(|o| o["k"] == "download").map(|o| o["n"].as_u64().unwrap()).max().unwrap_or(0)
    }

    fn max_transfer(&self) -> u64 {
        self.expect.iter().map(|o| o["n"].as_u64().unwrap_or(0)).max().unwrap_or(0)
    }
}

#[derive(Default, Debug, Clone)]
struct Obs {
    status: Option<u16>,
    headers: Vec<(String, String)>,
    heads: usize,
    body_len: u64,
    body: Vec<u8>,
    eof: bool,
    reset: Option<u64>,
    early: bool,
    sent: u64,
    notes: Vec<String>,
}

impl Obs {
    fn to_json(&self) -> Value {
        json!({"status": self.status, "headers": self.headers, "response_heads": self.heads, "body_len": self.body_len, "eof": self.eof, "reset": self.reset,
               "response_before_body_complete": self.early, "body_bytes_sent": self.sent, "notes": self.notes,
               "body_head": String::from_utf8_lossy(&self.body[..self.body.len().min(120)]).to_string()})
    }
}

/// does the observation realise outcome `o` of the specification? (as in c18.rs)
fn realises(o: &Value, obs: &Obs) -> bool {
    let n = o["n"].as_u64().unwrap_or(0);
    match o["k"].as_str().unwrap() {
        "empty" => obs.status == Some(200) && obs.body_len == 0,
        "bad" => obs.status == Some(400),
        "download" => obs.status == Some(200) && obs.body_len == n && obs.eof,
        "upload" => obs.status == Some(200) && (n == 0 || (!obs.early && obs.sent == n)),
        "tunnel" => obs.status == Some(407),
        _ => false,
    }
}

fn issue_of(v: &Vector, obs: &Obs) -> String {
    match obs.status {
        None if obs.reset.is_some() => "reset".into(),
        None => "no-response".into(),
        Some(200) if v.upload_len().map(|l| l > 0).unwrap_or(false) && obs.early => "response-before-body".into(),
        Some(200) if v.max_download() > 0 && obs.body_len < v.max_download() => "short-body".into(),
        Some(200) if v.max_download() > 0 && obs.body_len > v.max_download() => "long-body".into(),
        Some(200) if v.max_download() > 0 && !obs.eof => "body-not-ended".into(),
        Some(200) if v.expects("empty").is_some() && obs.body_len > 0 => "body-not-empty".into(),
        Some(s) => format!("status{}", s),
    }
}

fn sni_of(host: &str) -> &'static str {
    match host {
        "speedtest" => "speed.localhost",
        "ping" => "ping.localhost",
        "rp" => "rp.localhost",
        _ => "localhost",
    }
}

fn exchange(v: &Vector, idx: usize, server: SocketAddr, loss: bool) -> Obs {
    let mut o = Obs::default();
    let sni = sni_of(&v.host);
    let mut c = match H3Conn::connect(server, &ClientOpts { src_ip: source_ip(idx as u32), sni: Some(sni), ..Default::default() }) {
        Ok(c) => c,
        Err(e) => {
            o.notes.push(format!("handshake: {:?}", e));
            return o;
        }
    };
    c.body_keep = 4096;
    let (scheme, authority, path) = match v.target.split_once("://") {
        Some((s, rest)) => match rest.find('/') {
            Some(i) => (s.to_string(), rest[..i].to_string(), rest[i..].to_string()),
            None => (s.to_string(), rest.to_string(), "/".to_string()),
        },
        None => ("https".to_string(), sni.to_string(), v.target.clone()),
    };
    let mut h: Vec<(Vec<u8>, Vec<u8>)> = vec![
        (b":method".to_vec(), v.method.as_bytes().to_vec()),
        (b":scheme".to_vec(), scheme.into_bytes()),
        (b":authority".to_vec(), authority.into_bytes()),
        (b":path".to_vec(), path.into_bytes()),
    ];
    for (n, val) in &v.headers {
        if n == "host" {
            continue;
        }
        h.push((n.as_bytes().to_vec(), val.as_bytes().to_vec()));
    }
    if let Some(cl) = &v.cl {
        h.push((b"content-length".to_vec(), cl.as_bytes().to_vec()));
    }
    h.push((b"x-vec".to_vec(), idx.to_string().into_bytes()));
    let upload = v.upload_len().filter(|l| *l > 0);
    // a request that announces a body keeps its stream open; Content-Length: 0 or none ends it
    let announces_body = v.cl.as_deref().map(|c| c != "0").unwrap_or(false);
    let sid = match c.request(&h, !announces_body) {
        Ok(s) => s,
        Err(e) => {
            o.notes.push(e);
            return o;
        }
    };
    let has_head = move |c: &H3Conn| c.streams.get(&sid).map(|s| !s.heads.is_empty() || s.ended()).unwrap_or(false);
    if let Some(l) = upload {
        if c.run_until(QUIET, has_head) {
            o.early = true;
        } else {
            let mut left = l - 1;
            let budget = Duration::from_secs(120);
            while left > 0 {
                let k = left.min(ZEROS.len() as u64) as usize;
                match c.send_data(sid, &ZEROS[..k], false, budget) {
                    Ok(()) => {
                        o.sent += k as u64;
                        left -= k as u64;
                    }
                    Err(e) => {
                        o.notes.push(format!("body: {}", e));
                        break;
                    }
                }
            }
            // the client pauses before its last byte: no response may come before the body is complete
            if c.run_until(if l > 1 { PAUSE } else { QUIET }, has_head) {
                o.early = true;
            } else if o.sent == l - 1 {
                match c.send_data(sid, &ZEROS[..1], true, budget) {
                    Ok(()) => o.sent += 1,
                    Err(e) => o.notes.push(format!("last byte: {}", e)),
                }
            }
        }
    }
    if !c.run_until(WAIT, has_head) {
        o.notes.push(if c.is_closed() { c.close_reason() } else { "no response within the waiting time".into() });
    }
    // fault injection: once a part of the body has arrived, every datagram is lost for a while (a burst
    // of loss that takes the tail of the flight with it: only the endpoint's own timers can repair that)
    if loss && has_head(&c) {
        c.run_until(Duration::from_secs(5), move |c| c.streams.get(&sid).map(|s| s.body_len >= 30_000 || s.ended()).unwrap_or(false));
        c.deaf_until = Some(Instant::now() + Duration::from_millis(300));
        c.linger(Duration::from_millis(320));
        o.notes.push(format!("loss burst: {} datagrams dropped, {} datagrams received so far", c.dropped, c.rx_after_handshake));
    }
    // the body, to its end
    let big = v.max_download() > (4 << 20);
    let ended = move |c: &H3Conn| c.streams.get(&sid).map(|s| s.ended()).unwrap_or(false);
    if has_head(&c) && !c.run_until(if big { Duration::from_secs(180) } else { Duration::from_secs(5) }, ended) && v.max_download() > 0 {
        o.notes.push("body did not end within the waiting time".into());
    }
    let s = c.stream(sid);
    o.heads = s.heads.len();
    if let Some(first) = s.heads.first() {
        o.status = Some(s.status(0));
        o.headers = first.iter().filter(|(n, _)| !n.starts_with(':')).map(|(n, v)| (n.clone(), String::from_utf8_lossy(v).to_string())).collect();
    }
    o.body_len = s.body_len;
    o.body = s.body.clone();
    o.eof = s.finished;
    o.reset = s.reset;
    if c.is_closed() {
        o.notes.push(format!("connection: {}", c.close_reason()));
    }
    if loss {
        o.notes.push(format!("at the end: {} datagrams received, {:?}", c.rx_after_handshake, c.conn.stats()));
    }
    if let Some(e) = c.io_error() {
        o.notes.push(format!("client: {}", e));
    }
    c.close();
    o
}

// ---------------------------------------------------------------------------------------------
// the reverse proxy's origin: answers every request head, remembers it by its x-vec header

#[derive(Default)]
struct OriginLog {
    heads: HashMap<String, Vec<Vec<u8>>>,
    connections: u32,
}

fn start_origin() -> (SocketAddr, Arc<Mutex<OriginLog>>) {
    let l = std::net::TcpListener::bind("127.0.0.1:0").expect("origin");
    let addr = l.local_addr().unwrap();
    let log: Arc<Mutex<OriginLog>> = Default::default();
    let log2 = log.clone();
    std::thread::spawn(move || {
        for s in l.incoming().flatten() {
            let log = log2.clone();
            std::thread::spawn(move || {
                let mut s = s;
                log.lock().unwrap().connections += 1;
                let _ = s.set_read_timeout(Some(Duration::from_secs(10)));
                let mut rx = Vec::new();
                let mut tmp = [0u8; 4096];
                while !rx.windows(4).any(|w| w == b"\r\n\r\n") {
                    match s.read(&mut tmp) {
                        Ok(n) if n > 0 => rx.extend_from_slice(&tmp[..n]),
                        _ => break,
                    }
                }
                let key = String::from_utf8_lossy(&rx).to_ascii_lowercase().split("\r\n").find_map(|l| l.strip_prefix("x-vec:").map(|v| v.trim().to_string())).unwrap_or_else(|| "?".into());
                log.lock().unwrap().heads.entry(key).or_default().push(rx);
                let _ = s.write_all(b"HTTP/1.1 200 OK\r\nX-Origin: c18h3\r\nContent-Length: 9\r\n\r\n");
                let _ = s.write_all(ORIGIN_BODY);
                let _ = s.flush();
                // a moment for late client bytes, then the origin closes
                let _ = s.set_read_timeout(Some(Duration::from_millis(300)));
                while let Ok(n) = s.read(&mut tmp) {
                    if n == 0 {
                        break;
                    }
                }
            });
        }
    });
    (addr, log)
}

fn parse_request_head(rx: &[u8]) -> Option<(Vec<String>, Vec<(String, String)>)> {
    let end = rx.windows(4).position(|w| w == b"\r\n\r\n")?;
    let head = String::from_utf8_lossy(&rx[..end]).to_string();
    let mut lines = head.split("\r\n");
    let line: Vec<String> = lines.next()?.splitn(3, ' ').map(|s| s.to_string()).collect();
    let headers = lines.filter_map(|l| l.split_once(':').map(|(n, v)| (n.trim().to_ascii_lowercase(), v.trim().to_string()))).collect();
    Some((line, headers))
}

static PANICS: Mutex<Vec<String>> = Mutex::new(Vec::new());

fn main() {
    std::panic::set_hook(Box::new(|info| {
        let mut g = PANICS.lock().unwrap_or_else(|e| e.into_inner());
        if g.len() < 20 {
            g.push(format!("[{}] {}", std::thread::current().name().unwrap_or("?"), info));
        }
    }));
    install_logger();
    let out_path = arg("--out").expect("--out");
    let mut rep = Report::new("c18h3");
    watchdog::arm(&out_path, Duration::from_secs(900));
    logcap::plant("authorization", "c18-SECRET-bearer-token", &[]);
    logcap::plant("cookie", "c18-SECRET-cookie-value", &[]);
    logcap::plant("proxy-authorization", "bm9ib2R5Ondyb25nLXBhc3N3b3Jk", &["wrong-password"]);
    logcap::set_scenario("c18h3: TLC vectors of Services.tla over HTTP/3 (concurrent; see the result file for the vector)");
    let threads: usize = arg_or("--threads", "6").parse().unwrap();
    let only = arg("--only");
    // --qmux <file>: record the multiplexer's timer bookkeeping (hook QMux) for QuicTimersTrace.tla
    let qmux = arg("--qmux");
    if qmux.is_some() { trusttunnel::verif::start_recording(); }
    let loss_all = std::env::args().any(|a| a == "--loss");
    let no_loss = std::env::args().any(|a| a == "--no-loss");
    // quick tier: transfers above this many bytes are left to the thorough tier
    let max_transfer: u64 = arg_or("--max-transfer-mb", if tier_thorough() { "1000" } else { "16" }).parse::<u64>().unwrap() << 20;

    let mut vecs: Vec<Vector> = vec![];
    let mut skipped_big = 0u64;
    for v in read_tagged(&arg("--vectors").expect("--vectors"), "VEC") {
        let v = Vector::parse(&v);
        if let Some(o) = &only {
            if !v.id.contains(o.as_str()) {
                continue;
            }
        }
        rep.count("vectors", 1);
        if v.max_transfer() > max_transfer {
            skipped_big += 1;
            continue;
        }
        vecs.push(v);
    }
    // every small download is replayed a second time with a burst of packet loss in the middle of the body
    // (fault injection; the expected outcome is still the vector's)
    let n_plain = vecs.len();
    let mut loss_flags: Vec<bool> = vecs.iter().map(|_| loss_all).collect();
    if !loss_all && !no_loss {
        let again: Vec<Vector> = vecs.iter().filter(|v| v.channel == "speedtest" && v.max_download() > 0 && v.max_download() <= (2 << 20)).cloned().collect();
        for v in again {
            vecs.push(v);
            loss_flags.push(true);
        }
    }
    rep.count("loss_runs", loss_flags.iter().filter(|l| **l).count() as u64);
    let _ = n_plain;
    if skipped_big > 0 {
        rep.count("vectors_left_to_thorough", skipped_big);
        rep.note(format!("{} vector(s) with a transfer above {} MB are replayed in the thorough tier only", skipped_big, max_transfer >> 20));
    }

    // ---- one endpoint per configuration
    let server_rt = tokio::runtime::Builder::new_multi_thread().worker_threads(4).thread_name("endpoint").enable_all().build().unwrap();
    let (origin_addr, origin_log) = start_origin();
    let mut endpoints: HashMap<String, Endpoint> = HashMap::new();
    for v in &vecs {
        let key = v.cfg.to_string();
        if endpoints.contains_key(&key) {
            continue;
        }
        let rp_on = v.cfg["rp"]["on"].as_bool().unwrap();
        let ep = start_endpoint(&server_rt, &EndpointOpts {
            clients: vec![("alice".into(), "S3cretAlicePw".into())],
            allow_private: v.cfg["allowPrivate"].as_bool().unwrap(),
            ping_host: Some("ping.localhost".into()),
            speedtest_host: if v.cfg["speedtest"].as_bool().unwrap() { Some("speed.localhost".into()) } else { None },
            reverse_proxy: if rp_on { Some((origin_addr, text(&v.cfg["rp"]["mask"]), "rp.localhost".into())) } else { None },
            establishment_timeout: Duration::from_secs(5),
            ..Default::default()
        });
        endpoints.insert(key, ep);
    }
    rep.count("endpoints", endpoints.len() as u64);

    // ---- run
    let results: Vec<Mutex<Option<Obs>>> = vecs.iter().map(|_| Mutex::new(None)).collect();
    let in_flight: Arc<Mutex<Vec<usize>>> = Default::default();
    {
        let fl = in_flight.clone();
        let descs: Vec<Value> = vecs.iter().map(|v| v.desc()).collect();
        watchdog::enter(move || {
            let cur: Vec<Value> = fl.lock().unwrap().iter().map(|i| descs[*i].clone()).collect();
            ("services-h3:hang".into(), "an HTTP/3 service scenario did not finish".into(), json!({"in_flight": cur}))
        });
    }
    let next = AtomicUsize::new(0);
    let t0 = Instant::now();
    std::thread::scope(|s| {
        for t in 0..threads.max(1) {
            let (next, vecs, results, in_flight, endpoints, loss_flags) = (&next, &vecs, &results, &in_flight, &endpoints, &loss_flags);
            std::thread::Builder::new()
                .name(format!("client-{}", t))
                .spawn_scoped(s, move || loop {
                    let i = next.fetch_add(1, Ordering::Relaxed);
                    if i >= vecs.len() {
                        break;
                    }
                    in_flight.lock().unwrap().push(i);
                    let addr = endpoints[&vecs[i].cfg.to_string()].addr;
                    let o = catch(|| exchange(&vecs[i], i, addr, loss_flags[i])).unwrap_or_else(|p| Obs { notes: vec![format!("client panic: {}", p)], ..Default::default() });
                    in_flight.lock().unwrap().retain(|x| *x != i);
                    *results[i].lock().unwrap() = Some(o);
                })
                .unwrap();
        }
    });
    std::thread::sleep(Duration::from_millis(400));
    watchdog::leave();
    rep.count("run_ms", t0.elapsed().as_millis() as u64);
    for (k, ep) in endpoints.iter() {
        if !ep.is_running() {
            rep.violation_with("services-h3:listener-died", "Core::listen returned while HTTP/3 clients were being served", || json!({"cfg": k}));
        }
    }

    // ---- judge
    let olog = origin_log.lock().unwrap();
    for (i, v) in vecs.iter().enumerate() {
        let obs = results[i].lock().unwrap().take().unwrap_or_default();
        rep.eval();
        let loss = loss_flags[i];
        rep.nontrivial(format!("h3|{}|{}|{}|{}", v.host, v.id, v.cfg, loss));
        rep.count(&format!("channel_{}", v.channel), 1);
        if i % 41 == 3 {
            rep.sample(json!({"vector": v.desc(), "observed": obs.to_json()}));
        }
        let cfg_code = format!("{}{}", if v.cfg["speedtest"] == true { "st" } else { "nost" }, if v.cfg["rp"]["on"] == true { "+rp" } else { "" });
        if v.channel == "rp" {
            // whatever the origin answered, and the origin saw the documented request
            let heads = olog.heads.get(&i.to_string()).cloned().unwrap_or_default();
            let mut problems: Vec<String> = vec![];
            if heads.len() != 1 {
                problems.push(format!("origin-requests-{}", heads.len()));
            }
            if let Some((line, hs)) = heads.first().and_then(|h| parse_request_head(h)) {
                let want_line = vec![v.forward["line"][0].as_str().unwrap().to_string(), text(&v.forward["line"][1]), v.forward["line"][2].as_str().unwrap().to_string()];
                if line != want_line {
                    problems.push("request-line".into());
                }
                for wh in v.forward["headers"].as_array().unwrap() {
                    let (n, val) = (wh[0].as_str().unwrap(), wh[1].as_str().unwrap());
                    if n == "host" {
                        continue;
                    }
                    if !hs.iter().any(|(hn, hv)| hn == n && hv == val) {
                        problems.push(format!("header-missing-{}", n));
                    }
                }
                let xop: Vec<&String> = hs.iter().filter(|(n, _)| n == "x-original-protocol").map(|(_, v)| v).collect();
                if xop.len() != 1 || xop[0] != "HTTP3" {
                    problems.push("x-original-protocol".into());
                }
            }
            if obs.status != Some(200) || !obs.headers.iter().any(|(n, v)| n == "x-origin" && v == "c18h3") {
                problems.push(format!("relayed-status-{}", obs.status.unwrap_or(0)));
            } else if obs.body != ORIGIN_BODY {
                problems.push("relayed-body".into());
            }
            if !problems.is_empty() {
                rep.violation_with(format!("services-h3:rp:{}:{}:{}", v.host, v.id.split('.').nth(1).unwrap_or("?"), problems[0]), format!("reverse proxy over HTTP/3: {}", problems.join(", ")),
                    || json!({"vector": v.desc(), "forward": v.forward, "observed": obs.to_json(), "origin_heads": heads.iter().map(|h| String::from_utf8_lossy(h).to_string()).collect::<Vec<_>>()}));
            }
            continue;
        }
        if obs.heads > 1 {
            rep.violation_with(format!("services-h3:{}:{}:{}:extra-response", v.host, v.channel, v.id), format!("{} response heads on one request stream", obs.heads), || json!({"vector": v.desc(), "observed": obs.to_json()}));
            continue;
        }
        if !v.expect.iter().any(|o| realises(o, &obs)) {
            // the signature names the request class: host, channel, method, id (ids are the spec's names of the input classes)
            rep.violation_with(format!("services-h3{}:{}:{}:{}:{}:{}", if loss { "-loss" } else { "" }, v.host, v.channel, v.id, cfg_code, issue_of(v, &obs)),
                format!("HTTP/3 {} {} on the {} host{}: {} — not among the outcomes Services.tla allows", v.method, v.target, v.host, if loss { " with a burst of packet loss" } else { "" }, issue_of(v, &obs)),
                || json!({"vector": v.desc(), "packet_loss_burst": loss, "observed": obs.to_json()}));
        }
        for o in &v.expect {
            if realises(o, &obs) {
                rep.count(&format!("outcome_{}", o["k"].as_str().unwrap()), 1);
                break;
            }
        }
    }
    if let Some(stray) = olog.heads.get("?") {
        rep.violation_with("services-h3:origin-stray-request", "the origin received a request no vector explains", || json!({"heads": stray.iter().take(3).map(|h| String::from_utf8_lossy(h).to_string()).collect::<Vec<_>>()}));
    }
    let panics = PANICS.lock().unwrap_or_else(|e| e.into_inner());
    if !panics.is_empty() {
        rep.violation_with("services-h3:panic", format!("{} panic(s) while serving HTTP/3 clients", panics.len()), || json!({"panics": panics.clone()}));
    }
    if let Some(f) = qmux {
        use std::io::Write;
        let mut w = std::io::BufWriter::new(std::fs::File::create(&f).expect("qmux file"));
        let mut n = 0u64;
        for l in trusttunnel::verif::stop_recording() {
            if l.contains("\"ev\":\"QMux\"") { let _ = writeln!(w, "{}", l); n += 1; }
        }
        rep.count("qmux_observations", n);
    }
    rep.finish(&out_path);
}
