//! Experiment: does an HTTP/1.1 (and HTTP/2) CONNECT tunnel with regular traffic outlive
//! client_listener_timeout? (paused clock)
use std::time::Duration;
use tokio::io::{AsyncReadExt, AsyncWriteExt};
use trusttunnel::verif::tunnel::{serve_tunnel, set_forwarder, VProto};
use ttv::tunnel_env::*;

fn main() {
    ttv::logcap::install();
    let rt = tokio::runtime::Builder::new_current_thread().enable_all().start_paused(true).build().unwrap();
    rt.block_on(async {
        let core: &'static trusttunnel::core::Core = Box::leak(Box::new(make_core(&CoreOpts { listener_timeout: Some(Duration::from_secs(100)), tcp_timeout: Duration::from_secs(100000), ..Default::default() })));
        let fwd = ScriptedForwarder::new(TcpPlan::Ok, MuxPlan::Ok, MuxPlan::Ok);
        set_forwarder(Some(fwd.clone()));
        let (mut client, server) = tokio::io::duplex(1 << 16);
        let h = tokio::spawn(async move { let _ = serve_tunnel(core, VProto::Http1, server, peer_addr(), "localhost".into(), None).await; });
        h1_send(&mut client, &h1_request("CONNECT", "example.org:443", None, &[])).await.unwrap();
        let mut buf = [0u8; 1024];
        let n = client.read(&mut buf).await.unwrap();
        println!("response: {:?}", String::from_utf8_lossy(&buf[..n]).lines().next());
        for i in 0..30 {
            tokio::time::sleep(Duration::from_secs(10)).await;
            let w = client.write_all(b"0123456789").await;
            tokio::time::sleep(Duration::from_millis(100)).await;
            let got: usize = fwd.calls.lock().unwrap().peer_rx.iter().map(|v| v.len()).sum();
            println!("t={}s write={:?} peer_got={} tunnel_task_finished={}", (i + 1) * 10, w.is_ok(), got, h.is_finished());
            if w.is_err() { break; }
        }
    });
}
