//! The configuration as the operator presents it (ConfigFiles.tla): TOML files on disk, read the way
//! `endpoint/src/main.rs` reads them, and the real `trusttunnel_endpoint` binary started on them.
//!
//! Parts (`--parts keys,paths,deploy,idle`):
//!   * `keys`   KEYVEC lines: a settings file (text rendered by the spec) is parsed with
//!     `toml::from_str::<Settings>`; every documented key is read back through its accessor and the
//!     whole map is compared with the meaning the spec gives the file;
//!   * `paths`  FSNODE / CONTENT / PATHVEC lines: the spec's file system (regular files, directories,
//!     symbolic links) is created on disk; each file-path key is given each path; accepted / refused
//!     and - for accepted ones - the clients / the rule verdicts at the spec's sample points are
//!     compared with the spec;
//!   * `deploy` DEPLOY lines: the real binary is started on `vpn.toml` + `hosts.toml` of the
//!     deployment; whether it starts, which source addresses get a TLS handshake, and the status of
//!     `CONNECT _check` (HTTP/1.1 and HTTP/2) for every credentials probe are compared with the spec;
//!   * `idle`   IDLE lines: a tunnel through the running binary, silent or with activity every `gap`
//!     seconds: closed no later than 2T (+ a generous scheduling allowance) / still open, with T the
//!     value written under `tcp_connections_timeout_secs`.
//!
//! Expected values all come from TLC. The accessor table below says where a documented key is READ
//! in a `Settings`; it knows no values.

use base64::Engine;
use serde_json::{json, Value};
use std::collections::BTreeMap;
use std::io::{Read, Write};
use std::net::{SocketAddr, TcpStream};
use std::path::{Path, PathBuf};
use std::sync::Arc;
use std::time::{Duration, Instant};
use trusttunnel::core::Core;
use trusttunnel::settings::{ForwardProtocolSettings, Settings, TlsHostsSettings};
use trusttunnel::shutdown::Shutdown;
use trusttunnel::verif;
use ttv::tunnel_env::{fixture, h1_request, parse_h1_heads};
use ttv::*;

// ---------------------------------------------------------------------------------------
// part 1: where each documented key is read

fn readout(s: &Settings) -> BTreeMap<String, String> {
    let mut m = BTreeMap::new();
    let mut put = |k: &str, v: String| {
        m.insert(k.to_string(), v);
    };
    put("listen_address", s.get_listen_address().to_string());
    put("ipv6_available", s.get_ipv6_available().to_string());
    put("allow_private_network_connections", s.get_allow_private_network_connections().to_string());
    put("tls_handshake_timeout_secs", s.get_tls_handshake_timeout().as_secs().to_string());
    put("client_listener_timeout_secs", s.get_client_listener_timeout().as_secs().to_string());
    put("connection_establishment_timeout_secs", s.get_connection_establishment_timeout().as_secs().to_string());
    put("tcp_connections_timeout_secs", s.get_tcp_connections_timeout().as_secs().to_string());
    put("udp_connections_timeout_secs", s.get_udp_connections_timeout().as_secs().to_string());
    put("speedtest_enable", s.get_speedtest_enable().to_string());
    let lp = s.get_listen_protocols();
    let absent = || "absent".to_string();
    match &lp.http1 {
        Some(h) => put("listen_protocols.http1.upload_buffer_size", h.get_upload_buffer_size().to_string()),
        None => put("listen_protocols.http1.upload_buffer_size", absent()),
    }
    let h2 = lp.http2.as_ref();
    put("listen_protocols.http2.initial_connection_window_size", h2.map(|h| h.get_initial_connection_window_size().to_string()).unwrap_or_else(absent));
    put("listen_protocols.http2.initial_stream_window_size", h2.map(|h| h.get_initial_stream_window_size().to_string()).unwrap_or_else(absent));
    put("listen_protocols.http2.max_concurrent_streams", h2.map(|h| h.get_max_concurrent_streams().to_string()).unwrap_or_else(absent));
    put("listen_protocols.http2.max_frame_size", h2.map(|h| h.get_max_frame_size().to_string()).unwrap_or_else(absent));
    put("listen_protocols.http2.header_table_size", h2.map(|h| h.get_header_table_size().to_string()).unwrap_or_else(absent));
    let q = lp.quic.as_ref();
    put("listen_protocols.quic.recv_udp_payload_size", q.map(|x| x.get_recv_udp_payload_size().to_string()).unwrap_or_else(absent));
    put("listen_protocols.quic.send_udp_payload_size", q.map(|x| x.get_send_udp_payload_size().to_string()).unwrap_or_else(absent));
    put("listen_protocols.quic.initial_max_data", q.map(|x| x.get_initial_max_data().to_string()).unwrap_or_else(absent));
    put("listen_protocols.quic.initial_max_stream_data_bidi_local", q.map(|x| x.get_initial_max_stream_data_bidi_local().to_string()).unwrap_or_else(absent));
    put("listen_protocols.quic.initial_max_stream_data_bidi_remote", q.map(|x| x.get_initial_max_stream_data_bidi_remote().to_string()).unwrap_or_else(absent));
    put("listen_protocols.quic.initial_max_stream_data_uni", q.map(|x| x.get_initial_max_stream_data_uni().to_string()).unwrap_or_else(absent));
    put("listen_protocols.quic.initial_max_streams_bidi", q.map(|x| x.get_initial_max_streams_bidi().to_string()).unwrap_or_else(absent));
    put("listen_protocols.quic.initial_max_streams_uni", q.map(|x| x.get_initial_max_streams_uni().to_string()).unwrap_or_else(absent));
    put("listen_protocols.quic.max_connection_window", q.map(|x| x.get_max_connection_window().to_string()).unwrap_or_else(absent));
    put("listen_protocols.quic.max_stream_window", q.map(|x| x.get_max_stream_window().to_string()).unwrap_or_else(absent));
    put("listen_protocols.quic.disable_active_migration", q.map(|x| x.get_disable_active_migration().to_string()).unwrap_or_else(absent));
    put("listen_protocols.quic.enable_early_data", q.map(|x| x.get_enable_early_data().to_string()).unwrap_or_else(absent));
    put("listen_protocols.quic.message_queue_capacity", q.map(|x| x.get_message_queue_capacity().to_string()).unwrap_or_else(absent));
    match s.get_forward_protocol() {
        ForwardProtocolSettings::Socks5(x) => {
            put("forward_protocol.socks5.address", x.get_address().to_string());
            put("forward_protocol.socks5.extended_auth", x.get_extended_auth().to_string());
        }
        ForwardProtocolSettings::Direct(_) => {
            put("forward_protocol.socks5.address", absent());
            put("forward_protocol.socks5.extended_auth", absent());
        }
    }
    let rp = s.get_reverse_proxy().as_ref().map(|x| x.verif_fields());
    put("reverse_proxy.server_address", rp.map(|x| x.0.to_string()).unwrap_or_else(absent));
    put("reverse_proxy.path_mask", rp.map(|x| x.1.to_string()).unwrap_or_else(absent));
    put("reverse_proxy.h3_backward_compatibility", rp.map(|x| x.2.to_string()).unwrap_or_else(absent));
    let ic = s.get_icmp().as_ref();
    put("icmp.interface_name", ic.map(|x| x.get_interface_name().to_string()).unwrap_or_else(absent));
    put("icmp.request_timeout_secs", ic.map(|x| x.get_request_timeout().as_secs().to_string()).unwrap_or_else(absent));
    put("icmp.recv_message_queue_capacity", ic.map(|x| x.get_recv_message_queue_capacity().to_string()).unwrap_or_else(absent));
    let me = s.get_metrics().as_ref();
    put("metrics.address", me.map(|x| x.get_address().to_string()).unwrap_or_else(absent));
    put("metrics.request_timeout_secs", me.map(|x| x.get_request_timeout().as_secs().to_string()).unwrap_or_else(absent));
    m
}

fn run_keyvec(rep: &mut Report, v: &Value) {
    let text = v["text"].as_str().unwrap();
    let id = v["id"].as_str().unwrap();
    let cls = v["cls"].as_str().unwrap();
    logcap::set_scenario(&format!("keys:{}", id));
    rep.eval();
    rep.count(&format!("keyfiles_{}", cls), 1);
    if cls != "base" {
        rep.nontrivial(format!("keys:{}", id));
    }
    let det = |extra: Value| json!({"kind": "keybinding", "file": id, "file_text": text, "observed": extra});
    let s = match catch(|| toml::from_str::<Settings>(text)) {
        Ok(Ok(s)) => s,
        Ok(Err(e)) => {
            rep.violation_with(format!("config:keybinding:refused:{}", cls), format!("a settings file of documented keys and well-typed values is refused: {}", e), || det(json!({"error": e.to_string()})));
            return;
        }
        Err(p) => {
            rep.violation_with(format!("config:keybinding:panic:{}", cls), format!("panic: {}", p), || det(json!({"panic": p})));
            return;
        }
    };
    let got = readout(&s);
    let mut n = 0u64;
    for kv in v["meaning"].as_array().unwrap() {
        let (k, want) = (kv[0].as_str().unwrap(), kv[1].as_str().unwrap());
        n += 1;
        match got.get(k) {
            None => rep.violation_with(format!("config:keybinding:no-accessor:{}", k), "the harness has no accessor for a documented key", || det(json!({"key": k}))),
            Some(g) if g != want => {
                let set: Vec<&str> = v["set"].as_array().unwrap().iter().map(|x| x.as_str().unwrap()).collect();
                rep.violation_with(
                    format!("config:keybinding:{}", k),
                    format!("the file {} `{}`; the loaded settings say {} = {}, the file means {}", if set.contains(&k) { "sets" } else { "does not mention" }, k, k, g, want),
                    || det(json!({"key": k, "loaded": g, "means": want, "keys_set_in_file": set})),
                );
            }
            _ => {}
        }
    }
    rep.count("key_values_compared", n);
}

// ---------------------------------------------------------------------------------------
// part 2: the spec's file system, path keys

struct Fixtures {
    dir: PathBuf,
    content: Value,
}

fn materialise(dir: &Path, vectors: &[String]) -> Fixtures {
    let fs = dir.join("fs");
    let _ = std::fs::remove_dir_all(&fs);
    std::fs::create_dir_all(&fs).expect("fs dir");
    let content = vectors.iter().flat_map(|f| read_tagged(f, "CONTENT")).next().expect("CONTENT line");
    let pem = std::fs::read_to_string(fixture("localhost.pem")).expect("fixture localhost.pem");
    let mut nodes: Vec<Value> = vectors.iter().flat_map(|f| read_tagged(f, "FSNODE")).collect();
    nodes.sort_by_key(|n| n["depth"].as_u64().unwrap());
    for n in nodes {
        let p = fs.join(n["path"].as_str().unwrap());
        match n["t"].as_str().unwrap() {
            "dir" => {
                std::fs::create_dir_all(&p).expect("mkdir");
            }
            "file" => {
                let text = match n["content"].as_str().unwrap() {
                    "creds" => content["creds"].as_str().unwrap().to_string(),
                    "rules" => content["rules"].as_str().unwrap().to_string(),
                    _ => pem.clone(),
                };
                if !p.exists() {
                    std::fs::write(&p, text).expect("write");
                }
            }
            "link" => {
                if std::fs::symlink_metadata(&p).is_err() {
                    let to = n["to"].as_str().unwrap();
                    let target = if n["abs"].as_bool().unwrap() { fs.join(to) } else { PathBuf::from(to) };
                    std::os::unix::fs::symlink(&target, &p).expect("symlink");
                }
            }
            t => panic!("unknown node type {}", t),
        }
    }
    Fixtures { dir: dir.to_path_buf(), content }
}

const PROTO: &str = "[listen_protocols]\n[listen_protocols.http1]\n";

fn run_pathvec(rep: &mut Report, fx: &Fixtures, v: &Value) {
    let (role, kind, expect) = (v["role"].as_str().unwrap(), v["kind"].as_str().unwrap(), v["expect"].as_str().unwrap());
    let d = fx.dir.to_str().unwrap();
    let path = format!("{}/fs/{}", d, v["path"].as_str().unwrap());
    logcap::set_scenario(&format!("paths:{}:{}", role, kind));
    rep.eval();
    rep.count(&format!("paths_{}_{}", role, expect), 1);
    if kind != "real" {
        rep.nontrivial(format!("paths:{}:{}", role, kind));
    }
    let sig = |what: &str| format!("config:path:{}:{}:{}", role, kind, what);
    let det = |extra: Value| json!({"kind": "path", "role": role, "presented_as": kind, "path": path, "spec_stat": v["stat"], "last_component_is_link": v["lastIsLink"], "spec_expect": expect, "observed": extra});
    match role {
        "creds" | "rules" => {
            let key = if role == "creds" { "credentials_file" } else { "rules_file" };
            let text = format!("listen_address = \"127.0.0.1:8443\"\n{} = \"{}\"\n{}", key, path, PROTO);
            let parsed = match catch(|| toml::from_str::<Settings>(&text)) {
                Ok(x) => x,
                Err(p) => {
                    rep.violation_with(sig("panic"), format!("panic: {}", p), || det(json!({"panic": p})));
                    return;
                }
            };
            match (parsed, expect) {
                (Err(e), "accept") => rep.violation_with(sig("refused"), format!("the settings are refused although `{}` leads to a regular file", key), || det(json!({"error": e.to_string()}))),
                (Err(_), _) => {}
                (Ok(_), "refuse") => rep.violation_with(sig("accepted"), format!("the settings load although `{}` does not lead to a file", key), || det(json!({}))),
                (Ok(s), _) if role == "creds" => {
                    let mut got: Vec<(String, String)> = s.get_clients().iter().map(|c| (c.username.clone(), c.password.clone())).collect();
                    got.sort();
                    let mut want: Vec<(String, String)> = fx.content["pairs"].as_array().unwrap().iter().map(|p| (p[0].as_str().unwrap().to_string(), p[1].as_str().unwrap().to_string())).collect();
                    want.sort();
                    if got != want {
                        rep.violation_with(sig("clients"), "the clients loaded through this path are not the pairs of the file it leads to", || det(json!({"loaded": got.len(), "written": want.len()})));
                    }
                }
                (Ok(s), _) => {
                    // accept: the rule list of the file; open: refused (above) or "no rules"
                    let table = if expect == "accept" { &fx.content["verdicts"] } else { &fx.content["verdictsNoRules"] };
                    let mut diffs = vec![];
                    for (pt, want) in table.as_object().unwrap() {
                        if pt.starts_with("::ffff:") {
                            continue; // the canonical form of a mapped peer is the accept path's business (deploy part)
                        }
                        let ip: std::net::IpAddr = pt.parse().expect("point");
                        let got = match verif::rules::engine_evaluate(&s, ip, None) {
                            Some(true) => "allow",
                            Some(false) => "deny",
                            None => "no-engine",
                        };
                        rep.count("rule_points_evaluated", 1);
                        if got != want.as_str().unwrap() {
                            diffs.push(json!({"address": pt, "engine": got, "file_means": want}));
                        }
                    }
                    if !diffs.is_empty() {
                        let n = verif::rules::engine_rule_count(&s);
                        rep.violation_with(sig("rules"), "the rule list in force is not the one of the file the path leads to", || det(json!({"differences": diffs, "rules_loaded": n})));
                    }
                }
            }
        }
        _ => {
            let (cert, key) = if role == "cert" { (path.clone(), format!("{}/fs/real/key", d)) } else { (format!("{}/fs/real/cert", d), path.clone()) };
            let text = format!("[[main_hosts]]\nhostname = \"localhost\"\ncert_chain_path = \"{}\"\nprivate_key_path = \"{}\"\n", cert, key);
            let r = catch(|| -> Result<(), String> {
                let hosts: TlsHostsSettings = toml::from_str(&text).map_err(|e| format!("hosts: {}", e))?;
                let s: Settings = toml::from_str(&format!("listen_address = \"127.0.0.1:8443\"\n{}", PROTO)).map_err(|e| e.to_string())?;
                Core::new(s, None, hosts, Shutdown::new()).map(|_| ()).map_err(|e| format!("core: {:?}", e))
            });
            match (r, expect) {
                (Err(p), _) => rep.violation_with(sig("panic"), format!("panic: {}", p), || det(json!({"panic": p}))),
                (Ok(Err(e)), "accept") => rep.violation_with(sig("refused"), "the TLS hosts are refused although the path leads to a regular file", || det(json!({"error": e}))),
                (Ok(Ok(())), "refuse") => rep.violation_with(sig("accepted"), "the TLS hosts load although the path does not lead to a file", || det(json!({}))),
                _ => {}
            }
        }
    }
}

// ---------------------------------------------------------------------------------------
// part 3: the real binary

struct NoVerify;
impl rustls::client::ServerCertVerifier for NoVerify {
    fn verify_server_cert(&self, _: &rustls::Certificate, _: &[rustls::Certificate], _: &rustls::ServerName, _: &mut dyn Iterator<Item = &[u8]>, _: &[u8], _: std::time::SystemTime) -> Result<rustls::client::ServerCertVerified, rustls::Error> {
        Ok(rustls::client::ServerCertVerified::assertion())
    }
}

fn tls_config(alpn: &[u8]) -> Arc<rustls::ClientConfig> {
    let mut cfg = rustls::ClientConfig::builder().with_safe_defaults().with_custom_certificate_verifier(Arc::new(NoVerify)).with_no_client_auth();
    cfg.alpn_protocols = vec![alpn.to_vec()];
    Arc::new(cfg)
}

const IO_LIMIT: Duration = Duration::from_secs(10);

fn connect_from(src_ip: &str, port: u16) -> std::io::Result<TcpStream> {
    let v6 = src_ip.contains(':');
    let sock = socket2::Socket::new(if v6 { socket2::Domain::IPV6 } else { socket2::Domain::IPV4 }, socket2::Type::STREAM, None)?;
    let (src, dst) = if v6 { (format!("[{}]:0", src_ip), format!("[::1]:{}", port)) } else { (format!("{}:0", src_ip), format!("127.0.0.1:{}", port)) };
    sock.bind(&src.parse::<SocketAddr>().unwrap().into())?;
    sock.connect_timeout(&dst.parse::<SocketAddr>().unwrap().into(), IO_LIMIT)?;
    let s: TcpStream = sock.into();
    s.set_read_timeout(Some(IO_LIMIT))?;
    s.set_nodelay(true)?;
    Ok(s)
}

struct Tls {
    conn: rustls::ClientConnection,
    sock: TcpStream,
}

/// TCP connect + TLS handshake; Ok(None) = the peer dropped the connection instead of answering the handshake
fn tls_connect(src: &str, port: u16, alpn: &[u8]) -> Result<Option<Tls>, String> {
    let mut sock = connect_from(src, port).map_err(|e| format!("tcp connect: {}", e))?;
    let mut conn = rustls::ClientConnection::new(tls_config(alpn), rustls::ServerName::try_from("localhost").unwrap()).map_err(|e| e.to_string())?;
    while conn.is_handshaking() {
        if conn.complete_io(&mut sock).is_err() {
            return Ok(None);
        }
    }
    Ok(Some(Tls { conn, sock }))
}

fn basic(user: &str, pass: &str) -> Vec<u8> {
    format!("Basic {}", base64::engine::general_purpose::STANDARD.encode(format!("{}:{}", user, pass))).into_bytes()
}

/// one HTTP/1.1 CONNECT on a fresh connection; the status of the answer
fn h1_status(src: &str, port: u16, target: &str, auth: Option<&[u8]>) -> Result<(u16, Tls), String> {
    let mut t = tls_connect(src, port, b"http/1.1")?.ok_or("the TLS handshake was not answered")?;
    let mut tls = rustls::Stream::new(&mut t.conn, &mut t.sock);
    tls.write_all(&h1_request("CONNECT", target, auth, &[])).map_err(|e| e.to_string())?;
    let mut buf = Vec::new();
    let mut tmp = [0u8; 1];
    while !buf.ends_with(b"\r\n\r\n") {
        match tls.read(&mut tmp) {
            Ok(1) => buf.push(tmp[0]),
            Ok(_) => return Err(format!("closed after {} bytes of the response", buf.len())),
            Err(e) => return Err(format!("read: {}", e)),
        }
    }
    let st = parse_h1_heads(&buf).0.first().map(|h| h.status).unwrap_or(0);
    Ok((st, t))
}

fn h2_status(rt: &tokio::runtime::Runtime, src: &str, port: u16, target: &str, auth: Option<Vec<u8>>) -> Result<u16, String> {
    let (src, target) = (src.to_string(), target.to_string());
    rt.block_on(async move {
        let std_s = connect_from(&src, port).map_err(|e| e.to_string())?;
        std_s.set_nonblocking(true).map_err(|e| e.to_string())?;
        let s = tokio::net::TcpStream::from_std(std_s).map_err(|e| e.to_string())?;
        let tls = tokio::time::timeout(IO_LIMIT, tokio_rustls::TlsConnector::from(tls_config(b"h2")).connect(rustls::ServerName::try_from("localhost").unwrap(), s))
            .await.map_err(|_| "tls timeout".to_string())?.map_err(|e| e.to_string())?;
        let (mut send, conn) = tokio::time::timeout(IO_LIMIT, h2::client::handshake(tls)).await.map_err(|_| "h2 timeout".to_string())?.map_err(|e| e.to_string())?;
        let ct = tokio::spawn(async move {
            let _ = conn.await;
        });
        let mut rb = http::Request::builder().method("CONNECT").uri(target.as_str());
        if let Some(a) = &auth {
            rb = rb.header("proxy-authorization", a.as_slice());
        }
        let r = rb.body(()).unwrap();
        std::future::poll_fn(|cx| send.poll_ready(cx)).await.map_err(|e| e.to_string())?;
        let (resp, stream) = send.send_request(r, false).map_err(|e| e.to_string())?;
        let resp = tokio::time::timeout(IO_LIMIT, resp).await.map_err(|_| "no response".to_string())?.map_err(|e| e.to_string())?;
        let st = resp.status().as_u16();
        drop(stream);
        drop(send);
        ct.abort();
        let _ = ct.await;
        Ok(st)
    })
}

struct Proc {
    child: std::process::Child,
    port: u16,
    dir: PathBuf,
}
impl Drop for Proc {
    fn drop(&mut self) {
        let _ = self.child.kill();
        let _ = self.child.wait();
    }
}
impl Proc {
    fn log_tail(&self) -> String {
        let t = std::fs::read_to_string(self.dir.join("endpoint.log")).unwrap_or_default();
        let n = t.len().saturating_sub(1500);
        t.get(n..).unwrap_or("").to_string()
    }
}

fn free_port(v6: bool) -> u16 {
    let l = if v6 { std::net::TcpListener::bind("[::1]:0") } else { std::net::TcpListener::bind("127.0.0.1:0") }.expect("free port");
    l.local_addr().unwrap().port()
}

enum Started {
    Listening(Proc),
    Exited(Option<i32>, String),
}

/// write the two files, start the binary the way an operator does, wait until it listens or exits
fn start_binary(endpoint: &str, fx: &Fixtures, name: &str, vpn: &str, hosts: &str, v6: bool, reach: &str) -> Result<Started, String> {
    let d = fx.dir.to_str().unwrap();
    let dir = fx.dir.join("run").join(name.replace([':', '='], "_"));
    let _ = std::fs::remove_dir_all(&dir);
    std::fs::create_dir_all(&dir).map_err(|e| e.to_string())?;
    for attempt in 0..3 {
        let port = free_port(v6);
        std::fs::write(dir.join("vpn.toml"), vpn.replace("@D@", d).replace("@PORT@", &port.to_string())).map_err(|e| e.to_string())?;
        std::fs::write(dir.join("hosts.toml"), hosts.replace("@D@", d)).map_err(|e| e.to_string())?;
        let log = std::fs::File::create(dir.join("endpoint.log")).map_err(|e| e.to_string())?;
        let child = std::process::Command::new(endpoint)
            .args(["vpn.toml", "hosts.toml"])
            .current_dir(&dir)
            .env("RUST_BACKTRACE", "0")
            .stdin(std::process::Stdio::null())
            .stdout(std::process::Stdio::from(log.try_clone().map_err(|e| e.to_string())?))
            .stderr(std::process::Stdio::from(log))
            .spawn()
            .map_err(|e| format!("spawn {}: {}", endpoint, e))?;
        let mut p = Proc { child, port, dir: dir.clone() };
        let t0 = Instant::now();
        loop {
            if let Some(st) = p.child.try_wait().map_err(|e| e.to_string())? {
                let tail = p.log_tail();
                if tail.contains("Address already in use") && attempt < 2 {
                    break; // somebody took the port between the probe and the start: once more
                }
                return Ok(Started::Exited(st.code(), tail));
            }
            let dst: SocketAddr = if reach.contains(':') { format!("[::1]:{}", port) } else { format!("127.0.0.1:{}", port) }.parse().unwrap();
            if TcpStream::connect_timeout(&dst, Duration::from_millis(300)).is_ok() {
                return Ok(Started::Listening(p));
            }
            if t0.elapsed() > Duration::from_secs(30) {
                return Err(format!("the binary neither listens nor exits after 30 s; log: {}", p.log_tail()));
            }
            std::thread::sleep(Duration::from_millis(20));
        }
    }
    Err("no free port".into())
}

#[derive(Default)]
struct Outcome {
    evals: u64,
    nontrivial: Vec<String>,
    counts: Vec<(String, u64)>,
    violations: Vec<(String, String, Value)>,
    notes: Vec<String>,
}

fn probe_class(p: &Value) -> &'static str {
    if !p["present"].as_bool().unwrap() {
        "no-credentials"
    } else if p["status"] == json!(200) && p["user"] != json!("") {
        "configured-or-open"
    } else {
        "unconfigured-pair"
    }
}

fn run_deploy(endpoint: &str, fx: &Fixtures, v: &Value) -> Outcome {
    let mut o = Outcome::default();
    let id = v["id"].as_str().unwrap();
    let listen = v["listen"].as_str().unwrap();
    let lclass = if v["loopback"].as_bool().unwrap() { "loopback" } else { "public" };
    let (creds, rules) = (v["creds"].as_str().unwrap(), v["rules"].as_str().unwrap());
    let clients = v["clients"].as_array().unwrap();
    let first_src = clients.iter().map(|c| c["src"].as_str().unwrap()).min().unwrap();
    let v6 = listen == "lo6";
    let det = |extra: Value| json!({"kind": "deployment", "deployment": id, "vpn_toml": v["vpn"], "hosts_toml": v["hosts"], "credentials_presented_as": creds, "rules_presented_as": rules, "observed": extra});
    o.evals += 1;
    let started = match start_binary(endpoint, fx, id, v["vpn"].as_str().unwrap(), v["hosts"].as_str().unwrap(), v6, if v6 { "::1" } else { first_src }) {
        Ok(s) => s,
        Err(e) => {
            o.violations.push((format!("binary:start:hang:{}", lclass), e.clone(), det(json!({"error": e}))));
            return o;
        }
    };
    let starts = v["starts"].as_bool().unwrap();
    let proc_ = match (started, starts) {
        (Started::Exited(code, tail), true) => {
            o.violations.push((format!("binary:start:refused:{}", lclass), "trusttunnel_endpoint does not start on a configuration that is valid".into(), det(json!({"exit": code, "log_tail": tail}))));
            return o;
        }
        (Started::Exited(code, _), false) => {
            o.counts.push(("deploy_refused".into(), 1));
            o.nontrivial.push(format!("deploy:{}", id));
            if code == Some(0) {
                o.violations.push((format!("binary:start:exit0:{}", lclass), "trusttunnel_endpoint exits successfully on a configuration it must refuse".into(), det(json!({"exit": code}))));
            }
            return o;
        }
        (Started::Listening(_p), false) => {
            o.violations.push((format!("binary:start:not-refused:{}:creds={}", lclass, creds), "trusttunnel_endpoint listens on a configuration it must refuse to start with".into(), det(json!({}))));
            return o;
        }
        (Started::Listening(p), true) => p,
    };
    o.counts.push(("deploy_started".into(), 1));
    let port = proc_.port;
    let rt = tokio::runtime::Builder::new_current_thread().enable_all().build().unwrap();
    for c in clients {
        let src = c["src"].as_str().unwrap();
        let admitted = c["admitted"].as_bool().unwrap();
        o.evals += 1;
        let hs = tls_connect(src, port, b"http/1.1");
        match (&hs, admitted) {
            (Err(e), _) => {
                o.violations.push((format!("binary:connect:{}", lclass), format!("cannot connect from {}: {}", src, e), det(json!({"source": src, "error": e, "log_tail": proc_.log_tail()}))));
                continue;
            }
            (Ok(Some(_)), false) => {
                o.violations.push((format!("binary:rules:{}:admitted-denied-peer", rules), format!("a client from {} completes the TLS handshake although the rules file (presented as `{}`) denies it", src, rules), det(json!({"source": src}))));
                continue;
            }
            (Ok(None), true) => {
                o.violations.push((format!("binary:rules:{}:dropped-allowed-peer", rules), format!("a client from {} gets no TLS handshake although no rule denies it", src), det(json!({"source": src, "log_tail": proc_.log_tail()}))));
                continue;
            }
            (Ok(None), false) => {
                o.counts.push(("clients_denied".into(), 1));
                o.nontrivial.push(format!("deploy:{}:denied:{}", id, src));
                continue;
            }
            (Ok(Some(_)), true) => o.counts.push(("clients_admitted".into(), 1)),
        }
        drop(hs);
        for (i, p) in v["probes"].as_array().unwrap().iter().enumerate() {
            let (user, pass) = (p["user"].as_str().unwrap(), p["pass"].as_str().unwrap());
            let auth = if p["present"].as_bool().unwrap() { Some(basic(user, pass)) } else { None };
            let want = p["status"].as_u64().unwrap() as u16;
            // HTTP/1.1 for every probe, HTTP/2 for every third one (and always for the first three)
            let mut protos = vec!["h1"];
            if i < 3 || i % 3 == 0 {
                protos.push("h2");
            }
            for proto in protos {
                o.evals += 1;
                let got = if proto == "h1" { h1_status(src, port, "_check", auth.as_deref()).map(|x| x.0) } else { h2_status(&rt, src, port, "_check", auth.clone()) };
                if want != 200 {
                    o.nontrivial.push(format!("deploy:{}:{}:{}:{}", id, src, proto, i));
                }
                o.counts.push((format!("probes_{}", want), 1));
                match got {
                    Ok(st) if st == want => {}
                    Ok(st) => o.violations.push((
                        format!("binary:auth:{}:{}:{}-for-{}", lclass, probe_class(p), st, want),
                        format!("listen address {}, credentials file with {} pairs: a request with {} is answered {}, the configuration means {}", listen, fx.content["pairs"].as_array().unwrap().len(),
                                if auth.is_some() { "credentials that are not in the file" } else { "no credentials" }, st, want),
                        det(json!({"source": src, "protocol": proto, "probe_user": user, "probe_is_configured_pair": want == 200 && creds != "none", "status": st, "expected": want})),
                    )),
                    Err(e) => o.violations.push((format!("binary:auth:{}:no-answer", lclass), format!("no answer to a health-check request: {}", e), det(json!({"source": src, "protocol": proto, "error": e, "log_tail": proc_.log_tail()})))),
                }
            }
        }
    }
    o
}

fn run_idle(endpoint: &str, fx: &Fixtures, v: &Value, allowance: Duration) -> Outcome {
    let mut o = Outcome::default();
    let id = v["id"].as_str().unwrap();
    let v6 = v["listen"].as_str().unwrap() == "lo6";
    let src = if v6 { "::1" } else { "127.0.0.1" };
    let det = |extra: Value| json!({"kind": "idle", "run": id, "vpn_toml": v["vpn"], "tcp_connections_timeout_secs": v["tcp"], "udp_connections_timeout_secs": v["udp"], "observed": extra});
    o.evals += 1;
    o.nontrivial.push(id.to_string());
    // the destination of the tunnel: accepts, reads, never writes
    let dest = std::net::TcpListener::bind("127.0.0.1:0").expect("dest");
    let dest_port = dest.local_addr().unwrap().port();
    std::thread::spawn(move || {
        for c in dest.incoming().flatten() {
            std::thread::spawn(move || {
                let mut c = c;
                let mut b = [0u8; 256];
                while let Ok(n) = c.read(&mut b) {
                    if n == 0 {
                        break;
                    }
                }
            });
        }
    });
    let proc_ = match start_binary(endpoint, fx, id, v["vpn"].as_str().unwrap(), v["hosts"].as_str().unwrap(), v6, src) {
        Ok(Started::Listening(p)) => p,
        Ok(Started::Exited(code, tail)) => {
            o.violations.push(("binary:idle:not-started".into(), "trusttunnel_endpoint does not start".into(), det(json!({"exit": code, "log_tail": tail}))));
            return o;
        }
        Err(e) => {
            o.violations.push(("binary:idle:not-started".into(), e.clone(), det(json!({"error": e}))));
            return o;
        }
    };
    let auth = basic(v["user"].as_str().unwrap(), v["pass"].as_str().unwrap());
    let (st, mut t) = match h1_status(src, proc_.port, &format!("127.0.0.1:{}", dest_port), Some(&auth)) {
        Ok(x) => x,
        Err(e) => {
            o.violations.push(("binary:idle:no-tunnel".into(), format!("CONNECT through the binary failed: {}", e), det(json!({"error": e, "log_tail": proc_.log_tail()}))));
            return o;
        }
    };
    if st != 200 {
        o.violations.push(("binary:idle:no-tunnel".into(), format!("CONNECT through the binary answered {}", st), det(json!({"status": st, "log_tail": proc_.log_tail()}))));
        return o;
    }
    let up = Instant::now();
    let gap = v["gap"].as_u64().unwrap();
    let (closed_by, open_for) = (v["closedBy"].as_u64().unwrap(), v["openFor"].as_u64().unwrap());
    // has the endpoint closed the tunnel?  (a read that times out = still open)
    let closed = |t: &mut Tls, wait: Duration| -> bool {
        let _ = t.sock.set_read_timeout(Some(wait));
        let mut b = [0u8; 64];
        let mut tls = rustls::Stream::new(&mut t.conn, &mut t.sock);
        match tls.read(&mut b) {
            Ok(0) => true,
            Ok(_) => false,
            Err(e) if e.kind() == std::io::ErrorKind::WouldBlock || e.kind() == std::io::ErrorKind::TimedOut => false,
            Err(_) => true,
        }
    };
    if gap == 0 {
        // silent tunnel: must be gone no later than 2T after its last activity; the allowance covers scheduling of a loaded machine
        let deadline = Duration::from_secs(closed_by) + allowance;
        let mut is_closed = false;
        while up.elapsed() < deadline {
            if closed(&mut t, Duration::from_millis(250)) {
                is_closed = true;
                break;
            }
        }
        o.counts.push(("idle_silent_runs".into(), 1));
        if is_closed {
            o.notes.push(format!("{}: the silent tunnel was closed {:.1} s after it came up (2T = {} s)", id, up.elapsed().as_secs_f32(), closed_by));
        } else {
            o.violations.push((
                "binary:idle:open-after-2T".into(),
                format!("tcp_connections_timeout_secs = {}: a tunnel without any traffic is still open {:.0} s after it came up (2T = {} s)", v["tcp"], up.elapsed().as_secs_f32(), closed_by),
                det(json!({"open_after_s": up.elapsed().as_secs(), "two_T_s": closed_by})),
            ));
        }
    } else {
        // activity every `gap` <= T seconds: the idle timer must leave the tunnel alone
        let mut sent = 0;
        let mut dead_at = None;
        while up.elapsed() < Duration::from_secs(open_for) {
            let next = Duration::from_secs(gap * (sent + 1));
            while up.elapsed() < next {
                if closed(&mut t, Duration::from_millis(250)) {
                    dead_at = Some(up.elapsed());
                    break;
                }
            }
            if dead_at.is_some() {
                break;
            }
            let mut tls = rustls::Stream::new(&mut t.conn, &mut t.sock);
            if tls.write_all(b"x").and_then(|_| tls.flush()).is_err() {
                dead_at = Some(up.elapsed());
                break;
            }
            sent += 1;
        }
        o.counts.push(("idle_active_runs".into(), 1));
        if let Some(at) = dead_at {
            let alive = proc_.log_tail();
            o.violations.push((
                "binary:idle:closed-while-active".into(),
                format!("tcp_connections_timeout_secs = {}: a tunnel that transfers data every {} s was closed {:.1} s after it came up ({} bytes sent)", v["tcp"], gap, at.as_secs_f32(), sent),
                det(json!({"closed_after_s": at.as_secs_f32(), "gap_s": gap, "writes": sent, "log_tail": alive})),
            ));
        } else {
            o.notes.push(format!("{}: the tunnel with a byte every {} s was still open after {} s", id, gap, open_for));
        }
    }
    o
}

/// ConfigFiles.tla "the files the setup wizard writes are read back with identical meaning": the wizard writes its rules file
/// with the library's own serializer (`toml::to_string(&RulesConfig)`); the endpoint reads `rules_file` back. The rule list in
/// force must give the verdicts of the list that was written.
fn wizard_rules_roundtrip(rep: &mut Report, dir: &Path) {
    use trusttunnel::rules::{Rule, RuleAction, RulesConfig, RulesEngine};
    let cfg = || RulesConfig { rule: vec![
        Rule { cidr: Some("10.0.0.0/8".into()), client_random_prefix: None, action: RuleAction::Deny },
        Rule { cidr: Some("127.0.0.0/8".into()), client_random_prefix: None, action: RuleAction::Allow },
        Rule { cidr: Some("2001:db8::/32".into()), client_random_prefix: None, action: RuleAction::Deny },
        Rule { cidr: Some("0.0.0.0/0".into()), client_random_prefix: None, action: RuleAction::Deny },
    ] };
    rep.eval();
    rep.nontrivial("wizard-rules-roundtrip");
    let text = match toml::to_string(&cfg()) { Ok(t) => t, Err(e) => { rep.violation_with("config:wizard:rules:serialize", format!("the rule list cannot be written: {}", e), || json!({})); return; } };
    let path = dir.join("wizard_rules.toml");
    std::fs::write(&path, &text).expect("write rules");
    let settings_text = format!("listen_address = \"127.0.0.1:8443\"\nrules_file = \"{}\"\n{}", path.display(), PROTO);
    let loaded = match catch(|| toml::from_str::<Settings>(&settings_text)) {
        Ok(Ok(s)) => s,
        Ok(Err(e)) => { rep.violation_with("config:wizard:rules:refused", format!("the rules file the wizard's serializer wrote is refused: {}", e), || json!({"file": text})); return; }
        Err(p) => { rep.violation_with("config:wizard:rules:panic", format!("panic: {}", p), || json!({"file": text})); return; }
    };
    let reference = RulesEngine::from_config(cfg());
    let mut diffs = vec![];
    for pt in ["10.1.2.3", "127.0.0.1", "192.0.2.1", "2001:db8::1", "2001:db9::1"] {
        let ip: std::net::IpAddr = pt.parse().unwrap();
        let (got, want) = (verif::rules::engine_evaluate(&loaded, ip, None), Some(reference.evaluate(&ip, None) == trusttunnel::rules::RuleEvaluation::Allow));
        rep.count("rule_points_evaluated", 1);
        if got != want { diffs.push(json!({"address": pt, "read_back": got, "written": want})); }
    }
    if !diffs.is_empty() {
        rep.violation_with("config:wizard:rules:meaning", "the rules file written by the wizard's serializer is read back with another meaning", || json!({"file": text, "differences": diffs, "rules_loaded": verif::rules::engine_rule_count(&loaded)}));
    }
}

fn main() {
    let out = arg_or("--out", "binconf.result.json");
    quiet_panics();
    logcap::install();
    watchdog::arm(&out, Duration::from_secs(900));
    let args: Vec<String> = std::env::args().collect();
    let vectors: Vec<String> = args.iter().enumerate().filter(|(_, a)| *a == "--vectors").filter_map(|(i, _)| args.get(i + 1).cloned()).collect();
    let job = arg_or("--job", "binconf");
    let parts: Vec<String> = arg_or("--parts", "keys,paths,deploy,idle").split(',').map(str::to_string).collect();
    let has = |p: &str| parts.iter().any(|x| x == p);
    // restrictions for the callers that only need a slice (C04: rules; C14: the timeouts)
    let only_role = arg("--role");
    let rules_only = args.iter().any(|a| a == "--deploy-with-rules-only");
    let endpoint = arg("--endpoint");
    let threads: usize = arg_or("--threads", "6").parse().unwrap();
    let allowance = Duration::from_secs(arg_or("--idle-allowance", "12").parse().unwrap());
    let dir = std::env::current_dir().expect("cwd").join(format!("{}.files", job));
    let _ = std::fs::remove_dir_all(&dir);
    std::fs::create_dir_all(&dir).expect("work dir");
    let mut rep = Report::new(&job);
    let fx = materialise(&dir, &vectors);
    for p in fx.content["pairs"].as_array().unwrap() {
        logcap::plant("credentials-file-password", p[1].as_str().unwrap(), &[]);
    }

    if has("keys") {
        for f in &vectors {
            for v in read_tagged(f, "KEYVEC") {
                run_keyvec(&mut rep, &v);
            }
        }
    }
    if has("paths") && only_role.as_deref().map(|r| r == "rules").unwrap_or(true) {
        wizard_rules_roundtrip(&mut rep, &dir);
    }
    if has("paths") {
        for f in &vectors {
            for v in read_tagged(f, "PATHVEC") {
                if only_role.as_deref().map(|r| v["role"] == json!(r)).unwrap_or(true) {
                    run_pathvec(&mut rep, &fx, &v);
                }
            }
        }
    }
    if has("deploy") || has("idle") {
        let endpoint = endpoint.expect("--endpoint <trusttunnel_endpoint binary>");
        enum Job {
            Deploy(Value),
            Idle(Value),
        }
        let mut jobs: Vec<Job> = vec![];
        // the idle runs take the longest: first
        if has("idle") {
            jobs.extend(vectors.iter().flat_map(|f| read_tagged(f, "IDLE")).map(Job::Idle));
        }
        if has("deploy") {
            jobs.extend(vectors.iter().flat_map(|f| read_tagged(f, "DEPLOY")).filter(|v| !rules_only || v["rules"] != json!("none")).map(Job::Deploy));
        }
        let queue = std::sync::Mutex::new(jobs.into_iter().collect::<std::collections::VecDeque<_>>());
        let results = std::sync::Mutex::new(Vec::<Outcome>::new());
        std::thread::scope(|sc| {
            for _ in 0..threads {
                sc.spawn(|| loop {
                    let j = queue.lock().unwrap().pop_front();
                    let Some(j) = j else { break };
                    let o = match catch(|| match &j {
                        Job::Deploy(v) => run_deploy(&endpoint, &fx, v),
                        Job::Idle(v) => run_idle(&endpoint, &fx, v, allowance),
                    }) {
                        Ok(o) => o,
                        Err(p) => Outcome { notes: vec![format!("a worker of the harness panicked: {}", p)], ..Default::default() },
                    };
                    results.lock().unwrap().push(o);
                });
            }
        });
        for o in results.into_inner().unwrap() {
            rep.evals(o.evals);
            for k in o.nontrivial {
                rep.nontrivial(k);
            }
            for (k, n) in o.counts {
                rep.count(&k, n);
            }
            for n in o.notes {
                rep.note(n);
            }
            for (sig, what, detail) in o.violations {
                rep.violation(sig, what, detail);
            }
        }
    }
    rep.finish(&out)
}
