//! C05 — SNI/ALPN demultiplexing and hot reload.
//!
//! `--job table`  : every vector TLC printed for Demux.tla (configuration x SNI x ALPN with the
//!                  set of acceptable answers) is evaluated on the real code:
//!                    L1  `TlsDemux::new` + `select`                (door verif::demux::Demux)
//!                    L2  `TlsHostsSettings::validate`              (door validate_hosts)
//!                    L3  the TCP accept path: a rustls client sends a real ClientHello over
//!                        loopback to `TlsListener::listen` + `Core::on_new_tls_connection`
//!                        (door DemuxCore::serve_tcp); the configuration is installed with
//!                        `Core::reload_tls_hosts_settings`; observed: the `DemuxResult` hook,
//!                        the certificate the client was shown, the negotiated ALPN.
//! `--job reload` : reader threads select while a writer thread reloads valid and invalid
//!                  settings; the recorded event trace is written for DemuxTrace.tla.
//!
//! The expected answers are TLC's; nothing here decides what is right.

use serde_json::{json, Value};
use std::collections::{BTreeMap, HashMap};
use std::sync::Arc;
use std::time::Duration;
use trusttunnel::settings::{Settings, TlsHostsSettings};
use trusttunnel::verif::demux::{validate_hosts, Demux, DemuxCore, MetaView};
use ttv::*;

type Ans = [String; 4];

fn refuse() -> Ans {
    ["refuse".into(), "-".into(), "-".into(), "-".into()]
}

// ------------------------------------------------------------------ rendering

const SUFFIX: &str = "-k7q2x";

fn label(l: &str) -> String {
    let w = match l {
        "a" => "alfa",
        "b" => "bravo",
        "m" => "mike",
        o => o,
    };
    format!("{}{}", w, SUFFIX)
}

fn unlabel(s: &str) -> String {
    match s.strip_suffix(SUFFIX) {
        Some("alfa") => "a".into(),
        Some("bravo") => "b".into(),
        Some("mike") => "m".into(),
        _ => format!("?{}", s),
    }
}

fn labels_of(name: &Value) -> Vec<String> {
    name.as_array()
        .map(|a| a.iter().map(|x| x.as_str().unwrap().to_string()).collect())
        .unwrap_or_default()
}

fn render(name: &Value) -> String {
    labels_of(name).iter().map(|l| label(l)).collect::<Vec<_>>().join(".")
}

fn alpn_bytes(sym: &str) -> Vec<u8> {
    match sym {
        // "unknown" of DemuxRules.tla is any name that is not exactly h3 / h2 / http/1.1: rotate over foreign
        // names and near misses of the known ones (drafts, prefixes, suffixes, other case, padding)
        "unknown" => {
            static K: std::sync::atomic::AtomicUsize = std::sync::atomic::AtomicUsize::new(0);
            const NAMES: &[&[u8]] = &[b"spdy/9", b"h3-29", b"h2c", b"http/1.10", b"H2", b"h3 ", b"http/1.0", b"h", b"h33", b"HTTP/1.1", b"h2-14", b"h3-foo"];
            NAMES[K.fetch_add(1, std::sync::atomic::Ordering::Relaxed) % NAMES.len()].to_vec()
        }
        "nonUtf8" => vec![0xff, 0xfe, 0x80],
        s => s.as_bytes().to_vec(),
    }
}

fn alpn_of(v: &Value) -> Vec<Vec<u8>> {
    v.as_array()
        .map(|a| a.iter().map(|x| alpn_bytes(x.as_str().unwrap())).collect())
        .unwrap_or_default()
}

fn proto_alpn(p: &str) -> &'static [u8] {
    match p {
        "h1" => b"http/1.1",
        "h2" => b"h2",
        _ => b"h3",
    }
}

// ------------------------------------------------------------------ fixtures

/// where the certificate / key files of a certificate name live
struct Certs {
    dir: String,
    /// DER of the certificate behind a certificate name
    der: HashMap<String, Vec<u8>>,
}

impl Certs {
    fn fixture_dir() -> String {
        format!("{}/fixtures/c05", env!("CARGO_MANIFEST_DIR"))
    }

    /// certificate names c1..c5 are the fixture files themselves
    fn fixtures() -> Self {
        let mut c = Certs { dir: Self::fixture_dir(), der: HashMap::new() };
        for i in 1..=5 {
            let n = format!("c{}", i);
            let der = pem_der(&format!("{}/{}.crt", c.dir, n));
            c.der.insert(n, der);
        }
        c
    }

    /// names like v2c4 are copies of fixture c4 under `dir` (so that every configuration
    /// of the reload run has its own certificate identities)
    fn copies(dir: &str, names: &[String]) -> Self {
        std::fs::create_dir_all(dir).unwrap();
        let mut c = Certs { dir: dir.to_string(), der: HashMap::new() };
        for n in names {
            let base = &n[n.len() - 2..];
            for ext in ["crt", "key"] {
                std::fs::copy(
                    format!("{}/{}.{}", Self::fixture_dir(), base, ext),
                    format!("{}/{}.{}", dir, n, ext),
                )
                .unwrap();
            }
            c.der.insert(n.clone(), pem_der(&format!("{}/{}.crt", dir, n)));
        }
        c
    }

    fn crt(&self, name: &str) -> String {
        format!("{}/{}.crt", self.dir, name)
    }

    fn key(&self, name: &str) -> String {
        format!("{}/{}.key", self.dir, name)
    }

    fn name_of(&self, path: &str) -> String {
        let p = std::path::Path::new(path);
        if p.parent().map(|d| d == std::path::Path::new(&self.dir)).unwrap_or(false) {
            p.file_stem().unwrap().to_string_lossy().to_string()
        } else {
            format!("?{}", path)
        }
    }
}

fn pem_der(path: &str) -> Vec<u8> {
    use base64::Engine;
    let s = std::fs::read_to_string(path).unwrap_or_else(|e| panic!("{}: {}", path, e));
    let b64: String = s.lines().filter(|l| !l.starts_with("-----")).collect();
    base64::engine::general_purpose::STANDARD.decode(b64).expect("fixture PEM")
}

fn hosts_toml(cfg: &Value, certs: &Certs) -> String {
    let mut out = String::new();
    for h in cfg["hosts"].as_array().unwrap() {
        let table = match h["cls"].as_str().unwrap() {
            "main" => "main_hosts",
            "ping" => "ping_hosts",
            "speed" => "speedtest_hosts",
            _ => "reverse_proxy_hosts",
        };
        let cert = h["cert"].as_str().unwrap();
        let alts: Vec<String> =
            h["alts"].as_array().unwrap().iter().map(|a| format!("\"{}\"", render(a))).collect();
        out += &format!(
            "[[{}]]\nhostname = \"{}\"\ncert_chain_path = \"{}\"\nprivate_key_path = \"{}\"\nallowed_sni = [{}]\n\n",
            table,
            render(&h["name"]),
            certs.crt(cert),
            certs.key(cert),
            alts.join(", ")
        );
    }
    out
}

fn make_hosts(cfg: &Value, certs: &Certs) -> TlsHostsSettings {
    let t = hosts_toml(cfg, certs);
    toml::from_str::<TlsHostsSettings>(&t).unwrap_or_else(|e| panic!("hosts TOML: {}\n{}", e, t))
}

fn enabled_of(cfg: &Value) -> Vec<String> {
    let mut v: Vec<String> =
        cfg["enabled"].as_array().unwrap().iter().map(|x| x.as_str().unwrap().to_string()).collect();
    v.sort();
    v
}

fn make_settings(cfg: &Value) -> Settings {
    let en = enabled_of(cfg);
    let mut t = String::from("listen_address = \"127.0.0.1:1\"\n");
    t += "[listen_protocols]\n";
    for (p, table) in [("h1", "http1"), ("h2", "http2"), ("h3", "quic")] {
        if en.iter().any(|x| x == p) {
            t += &format!("[listen_protocols.{}]\n", table);
        }
    }
    if cfg["rp"].as_bool().unwrap() {
        t += "[reverse_proxy]\nserver_address = \"127.0.0.1:9\"\npath_mask = \"/rp\"\n";
    }
    toml::from_str::<Settings>(&t).unwrap_or_else(|e| panic!("settings TOML: {}\n{}", e, t))
}

fn settings_key(cfg: &Value) -> String {
    format!("{}|{}", cfg["rp"], enabled_of(cfg).join("+"))
}

// ------------------------------------------------------------------ comparison

fn answers(v: &Value) -> Vec<Ans> {
    v.as_array()
        .unwrap()
        .iter()
        .map(|a| {
            let a = a.as_array().unwrap();
            [0, 1, 2, 3].map(|i| a[i].as_str().unwrap().to_string())
        })
        .collect()
}

fn observed(r: &Result<MetaView, String>, certs: &Certs) -> Ans {
    match r {
        Err(_) => refuse(),
        Ok(v) => [
            v.channel.to_string(),
            v.protocol.to_string(),
            certs.name_of(&v.cert_id),
            v.sni_auth_creds.as_deref().map(unlabel).unwrap_or_else(|| "-".into()),
        ],
    }
}

/// class of a divergence (computed from the expected set and the observation, never from text)
fn classify(layer: &str, exp: &[Ans], got: &Ans, enabled: &[String]) -> String {
    let en = enabled.join("+");
    let serve: Vec<&Ans> = exp.iter().filter(|a| a[0] != "refuse").collect();
    if got[0] == "refuse" {
        return format!("demux:{}:refused-but-must-serve:{}:{}", layer, serve[0][0], serve[0][1]);
    }
    if serve.is_empty() {
        return format!("demux:{}:served-but-must-refuse:{}:{}:enabled={}", layer, got[0], got[1], en);
    }
    let e = serve[0];
    let what = if serve.iter().all(|a| a[0] != got[0]) {
        "wrong-channel"
    } else if serve.iter().all(|a| a[2] != got[2]) {
        "wrong-cert"
    } else if serve.iter().all(|a| a[3] != got[3]) {
        "wrong-creds"
    } else {
        "wrong-proto"
    };
    format!("demux:{}:{}:{}:exp={}:got={}:enabled={}", layer, what, got[0], e[1], got[1], en)
}

// ------------------------------------------------------------------ TLS client

struct NoVerify;

impl rustls::client::ServerCertVerifier for NoVerify {
    fn verify_server_cert(
        &self,
        _end_entity: &rustls::Certificate,
        _intermediates: &[rustls::Certificate],
        _server_name: &rustls::ServerName,
        _scts: &mut dyn Iterator<Item = &[u8]>,
        _ocsp_response: &[u8],
        _now: std::time::SystemTime,
    ) -> Result<rustls::client::ServerCertVerified, rustls::Error> {
        Ok(rustls::client::ServerCertVerified::assertion())
    }
}

struct Seen {
    cert: Vec<u8>,
    alpn: Option<Vec<u8>>,
}

async fn client_hello(
    addr: std::net::SocketAddr,
    tcp: tokio::net::TcpStream,
    sni: Option<String>,
    alpn: Vec<Vec<u8>>,
) -> Result<Seen, String> {
    let _ = addr;
    let mut cfg = rustls::ClientConfig::builder()
        .with_safe_defaults()
        .with_custom_certificate_verifier(Arc::new(NoVerify))
        .with_no_client_auth();
    cfg.alpn_protocols = alpn;
    cfg.enable_sni = sni.is_some();
    let name = rustls::ServerName::try_from(sni.as_deref().unwrap_or("nosni.invalid"))
        .map_err(|e| format!("server name: {}", e))?;
    let connector = tokio_rustls::TlsConnector::from(Arc::new(cfg));
    let mut tls = connector.connect(name, tcp).await.map_err(|e| e.to_string())?;
    let seen = {
        let (_, conn) = tls.get_ref();
        Seen {
            cert: conn.peer_certificates().and_then(|c| c.first()).map(|c| c.0.clone()).unwrap_or_default(),
            alpn: conn.alpn_protocol().map(|a| a.to_vec()),
        }
    };
    // keep the connection open until the endpoint has finished its side of the handshake and
    // entered the channel handler: send a request, wait for the first bytes of any answer (an
    // HTTP/2 endpoint sends SETTINGS by itself), then close. What is answered is not C05's matter.
    use tokio::io::{AsyncReadExt, AsyncWriteExt};
    let _ = tls.write_all(b"GET / HTTP/1.1\r\nHost: verif\r\nConnection: close\r\n\r\n").await;
    let _ = tls.flush().await;
    let mut b = [0u8; 1];
    let _ = tokio::time::timeout(Duration::from_secs(3), tls.read(&mut b)).await;
    let _ = tls.shutdown().await;
    Ok(seen)
}

struct TcpOutcome {
    /// what the `DemuxResult` hook reported (None: the connection was not served)
    selected: Option<Ans>,
    server: Result<(), String>,
    panicked: Option<String>,
    client: Result<Seen, String>,
    handler_stuck: bool,
}

async fn tcp_point(
    listener: &tokio::net::TcpListener,
    core: &Arc<DemuxCore>,
    sni: Option<String>,
    alpn: Vec<Vec<u8>>,
    certs: &Certs,
) -> Option<TcpOutcome> {
    let addr = listener.local_addr().unwrap();
    let _ = trusttunnel::verif::drain_events();
    let mut pair = None;
    for attempt in 0..20 {
        // (a connect that fails for lack of local ports is retried: not the code under test)
        match tokio::net::TcpStream::connect(addr).await {
            Ok(c) => match tokio::time::timeout(Duration::from_secs(20), listener.accept()).await {
                Ok(Ok((s, _))) => {
                    pair = Some((c, s));
                    break;
                }
                _ => {}
            },
            Err(_) => tokio::time::sleep(Duration::from_millis(100 * (attempt + 1))).await,
        }
    }
    let (c, s) = pair?;
    let server = tokio::spawn({
        let core = core.clone();
        async move { core.serve_tcp(s).await }
    });
    let client = match tokio::time::timeout(Duration::from_secs(20), client_hello(addr, c, sni, alpn)).await {
        Ok(r) => r,
        Err(_) => Err("client handshake timed out".to_string()),
    };
    let mut handler_stuck = false;
    let abort = server.abort_handle();
    let (server, panicked) = match tokio::time::timeout(Duration::from_secs(20), server).await {
        Ok(Ok(r)) => (r, None),
        Ok(Err(e)) if e.is_panic() => {
            let p = e.into_panic();
            let msg = p
                .downcast_ref::<String>()
                .cloned()
                .or_else(|| p.downcast_ref::<&str>().map(|s| s.to_string()))
                .unwrap_or_else(|| "panic".into());
            (Err("panicked".to_string()), Some(msg))
        }
        Ok(Err(e)) => (Err(format!("join: {}", e)), None),
        Err(_) => {
            abort.abort();
            handler_stuck = true;
            (Ok(()), None)
        }
    };
    let mut selected = None;
    for line in trusttunnel::verif::drain_events() {
        let v: Value = serde_json::from_str(&line).unwrap_or(Value::Null);
        if v["ev"] == "DemuxResult" {
            let r = &v["res"];
            selected = Some([
                r["channel"].as_str().unwrap().to_string(),
                r["proto"].as_str().unwrap().to_string(),
                certs.name_of(r["cert"].as_str().unwrap()),
                match r["creds"].as_str().unwrap() {
                    "-" => "-".to_string(),
                    s => unlabel(s),
                },
            ]);
        }
    }
    Some(TcpOutcome { selected, server, panicked, client, handler_stuck })
}

// ------------------------------------------------------------------ job: table

/// The SNI is `<creds>.<main host>`: the credentials label is a secret. It is planted as a log
/// canary unless the same label also occurs in the (public) host part of this SNI, where its
/// appearance in a log line would not be a leak.
fn plantable(creds_label: &Option<String>, sni: &Value) -> bool {
    match creds_label {
        Some(l) => !labels_of(sni).iter().skip(1).any(|x| x == l),
        None => false,
    }
}

fn pick(seed: u64, key: &str, one_in: u64) -> bool {
    // deterministic sampling: FNV-1a of the key mixed with the seed
    let mut h: u64 = 0xcbf29ce484222325 ^ seed.wrapping_mul(0x9e3779b97f4a7c15);
    for b in key.as_bytes() {
        h ^= *b as u64;
        h = h.wrapping_mul(0x100000001b3);
    }
    h ^= h >> 29;
    h % one_in == 0
}

/// FNV-1a
fn fnv(key: &str) -> u64 {
    let mut h: u64 = 0xcbf29ce484222325;
    for b in key.as_bytes() {
        h ^= *b as u64;
        h = h.wrapping_mul(0x100000001b3);
    }
    h
}

/// Stream the `<<"TAG", "json">>` lines of a TLC log (same format as `ttv::read_tagged`)
fn for_each_tagged(path: &str, tag: &str, mut f: impl FnMut(Value)) {
    use std::io::BufRead;
    let file = std::fs::File::open(path).unwrap_or_else(|e| panic!("open {}: {}", path, e));
    let prefix = format!("<<\"{}\", \"", tag);
    for line in std::io::BufReader::new(file).lines() {
        let line = line.unwrap();
        if let Some(body) = line.strip_prefix(&prefix).and_then(|r| r.strip_suffix("\">>")) {
            let un = body.replace("\\\"", "\"").replace("\\\\", "\\");
            f(serde_json::from_str(&un).unwrap_or_else(|e| panic!("bad JSON in TLC output: {} in {}", e, un)));
        }
    }
}

fn job_table(vectors: &str, out_path: &str) {
    let mut rep = Report::new("c05.table");
    let certs = Certs::fixtures();
    let tcp_mode = arg_or("--tcp", "len2"); // all | len2 | none
    let tcp_sample: u64 = arg_or("--tcp-sample", "1").parse().unwrap();
    let seed = seed();

    // configurations (TLC prints them while it computes the initial states, before any vector)
    let mut cfgs: HashMap<String, Value> = HashMap::new();
    for_each_tagged(vectors, "CFG", |c| {
        let key = c["c"].to_string();
        // L2: validation
        let cfg = &c["cfg"];
        let exp: Vec<bool> = c["valid"].as_array().unwrap().iter().map(|b| b.as_bool().unwrap()).collect();
        let hosts = make_hosts(cfg, &certs);
        rep.eval();
        match catch(|| validate_hosts(&hosts)) {
            Ok(r) => {
                if !exp.contains(&r.is_ok()) {
                    let sig = format!("demux:validate:{}", if r.is_ok() { "accepted-duplicate-names" } else { "rejected-valid" });
                    rep.violation_with(sig, "TlsHostsSettings::validate disagrees with Validate(cfg)", || {
                        json!({"layer": "validate", "cfg": cfg, "expected": exp, "observed": format!("{:?}", r), "hosts_toml": hosts_toml(cfg, &certs)})
                    });
                }
                if !r.is_ok() {
                    rep.nontrivial(format!("V{}", key));
                    rep.count("configs_invalid", 1);
                }
            }
            Err(p) => rep.violation("demux:validate:panic", "validate panicked", json!({"layer": "validate", "cfg": cfg, "panic": p})),
        }
        rep.count("configs", 1);
        cfgs.insert(key, c["cfg"].clone());
    });

    // L1: select, streamed; the vectors chosen for the TCP layer are kept
    let mut settings_cache: HashMap<String, Settings> = HashMap::new();
    let mut demux_cache: HashMap<String, Option<Demux>> = HashMap::new();
    let mut seen_points: std::collections::HashSet<u64> = std::collections::HashSet::new();
    let mut by_cfg: BTreeMap<String, Vec<Value>> = BTreeMap::new();
    for_each_tagged(vectors, "VEC", |v| {
        rep.count("tlc_vectors", 1);
        let key = v["c"].to_string();
        let point = format!("{}|{}|{}", key, v["s"], v["a"]);
        if !seen_points.insert(fnv(&point)) {
            rep.count("duplicate_vectors", 1);
            return;
        }
        let cfg = cfgs.get(&key).unwrap_or_else(|| panic!("vector without CFG line {}", key));
        if demux_cache.len() > 4096 && !demux_cache.contains_key(&key) {
            demux_cache.clear();
        }
        if !demux_cache.contains_key(&key) {
            let sk = settings_key(cfg);
            let settings = settings_cache.entry(sk).or_insert_with(|| make_settings(cfg));
            let hosts = make_hosts(cfg, &certs);
            let d = match Demux::new(settings, &hosts) {
                Ok(d) => Some(d),
                Err(e) => {
                    rep.violation("demux:new:failed", "TlsDemux::new failed on a valid configuration", json!({"layer": "select", "cfg": cfg, "error": e.to_string()}));
                    None
                }
            };
            demux_cache.insert(key.clone(), d);
        }
        let demux = match &demux_cache[&key] {
            Some(d) => d,
            None => return,
        };
        let enabled = enabled_of(cfg);
        {
            let sni = render(&v["s"]);
            let alpn = alpn_of(&v["a"]);
            let exp = answers(&v["q"]);
            let exp_t = answers(&v["t"]);
            let creds_label = exp.iter().chain(exp_t.iter()).find(|a| a[3] != "-").map(|a| a[3].clone());
            let plant = plantable(&creds_label, &v["s"]);
            if plant {
                logcap::set_scenario(&format!("select sni={}", v["s"]));
                logcap::plant("sni-creds", &label(creds_label.as_ref().unwrap()), &[]);
            }
            rep.eval();
            let r = catch(|| demux.select(&alpn, &sni));
            if plant {
                logcap::clear_canaries();
            }
            // what makes a vector non-trivial: anything but "SNI designates nothing -> refuse"
            // (the plain decision of an SNI designating nothing is {refuse} plus the QUIC bootstrap answers)
            let trivial = exp_t.len() == 1 && exp_t[0][0] == "refuse" && exp.len() >= 2 && exp.iter().any(|a| a[0] == "refuse");
            if !trivial {
                rep.nontrivial(format!("{:016x}", fnv(&point)));
            }
            if exp.len() > 1 || exp_t.len() > 1 {
                rep.count("vectors_with_answer_sets", 1);
            }
            if creds_label.is_some() {
                rep.count("vectors_sni_creds", 1);
            }
            for ch in ["tunnel", "ping", "speedtest", "reverse_proxy"] {
                if exp_t.iter().any(|a| a[0] == ch) {
                    rep.count(&format!("vectors_tcp_{}", ch), 1);
                }
            }
            match r {
                Err(p) => rep.violation_with("demux:select:panic", "select panicked", || json!({"layer": "select", "cfg": cfg, "sni": v["s"], "alpn": v["a"], "panic": p})),
                Ok(r) => {
                    let got = observed(&r, &certs);
                    let sni_kept = r.as_ref().map(|m| m.sni == sni).unwrap_or(true);
                    if !exp.contains(&got) {
                        let sig = classify("select", &exp, &got, &enabled);
                        rep.violation_with(sig, "TlsDemux::select is outside the answer set of Select(cfg, sni, alpn, \"quic\")", || {
                            json!({"layer": "select", "cfg": cfg, "sni": v["s"], "alpn": v["a"], "expected": exp, "observed": got,
                                   "error": r.as_ref().err(), "sni_text": sni})
                        });
                    } else if !sni_kept {
                        rep.violation("demux:select:sni-altered", "ConnectionMeta.sni differs from the client's SNI", json!({"layer": "select", "cfg": cfg, "sni": v["s"]}));
                    }
                    if !trivial {
                        rep.sample(json!({"cfg": cfg, "sni": v["s"], "alpn": v["a"], "expected_select": exp, "expected_tcp": exp_t, "observed_select": got}));
                    }
                }
            }
        }
        let chosen = tcp_mode != "none"
            && (tcp_mode == "all" || v["a"].as_array().unwrap().len() <= 2)
            && (tcp_sample <= 1 || pick(seed, &point, tcp_sample));
        if chosen {
            by_cfg.entry(key).or_default().push(v);
        }
    });
    drop(demux_cache);
    drop(seen_points);
    if rep.counters.get("tlc_vectors").copied().unwrap_or(0) == 0 {
        rep.note("no vectors");
    }

    // L3: the TCP accept path
    if tcp_mode != "none" {
        watchdog::arm(out_path, Duration::from_secs(120));
        trusttunnel::verif::start_recording();
        let rt = tokio::runtime::Builder::new_multi_thread().worker_threads(2).enable_all().build().unwrap();
        // several listening ports: the (address, port) pairs of closed connections stay in
        // TIME_WAIT for a while and must not run out
        let listeners: Vec<tokio::net::TcpListener> = rt.block_on(async {
            let mut v = Vec::new();
            for _ in 0..16 {
                v.push(tokio::net::TcpListener::bind("127.0.0.1:0").await.unwrap());
            }
            v
        });
        let mut conn_no = 0usize;
        let mut cores: HashMap<String, (Arc<DemuxCore>, String)> = HashMap::new();
        let mut cfg_no = 0u64;
        for (key, vs) in &by_cfg {
            let cfg = &cfgs[key];
            let enabled = enabled_of(cfg);
            let chosen: Vec<&Value> = vs.iter().collect();
            cfg_no += 1;
            let sk = settings_key(cfg);
            if !cores.contains_key(&sk) {
                match DemuxCore::new(make_settings(cfg), make_hosts(cfg, &certs)) {
                    Ok(c) => {
                        cores.insert(sk.clone(), (Arc::new(c), key.clone()));
                    }
                    Err(e) => {
                        rep.violation("demux:core:new-failed", "Core::new failed on a valid configuration", json!({"cfg": cfg, "error": e}));
                        continue;
                    }
                }
            }
            let entry = cores.get_mut(&sk).unwrap();
            if &entry.1 != key {
                // install this configuration the way a running endpoint gets it
                match catch(|| entry.0.reload(cfg_no, make_hosts(cfg, &certs))) {
                    Ok(Ok(())) => entry.1 = key.clone(),
                    Ok(Err(e)) => {
                        rep.violation("demux:reload:rejected-valid", "reload of a valid configuration failed", json!({"cfg": cfg, "error": e}));
                        continue;
                    }
                    Err(p) => {
                        rep.violation("demux:reload:panic", "reload panicked", json!({"cfg": cfg, "panic": p}));
                        continue;
                    }
                }
                rep.count("tcp_reloads", 1);
            }
            let core = entry.0.clone();
            for v in chosen {
                let exp_t = answers(&v["t"]);
                let sni_labels = labels_of(&v["s"]);
                let sni = if sni_labels.is_empty() { None } else { Some(render(&v["s"])) };
                let alpn = alpn_of(&v["a"]);
                let creds_label = exp_t.iter().find(|a| a[3] != "-").map(|a| a[3].clone());
                let plant = plantable(&creds_label, &v["s"]);
                if plant {
                    logcap::set_scenario(&format!("tcp accept path, sni={} (<creds>.<main>)", v["s"]));
                    logcap::plant("sni-creds", &label(creds_label.as_ref().unwrap()), &[]);
                }
                {
                    let d = json!({"layer": "tcp", "cfg": cfg, "sni": v["s"], "alpn": v["a"]});
                    watchdog::enter(move || ("demux:tcp:hang".to_string(), "the TCP accept path did not return".to_string(), d));
                }
                rep.eval();
                rep.count("tcp_handshakes", 1);
                conn_no += 1;
                let o = rt.block_on(tcp_point(&listeners[conn_no % listeners.len()], &core, sni.clone(), alpn.clone(), &certs));
                watchdog::leave();
                let o = match o {
                    Some(o) => o,
                    None => {
                        rep.count("tcp_skipped_no_loopback_connection", 1);
                        continue;
                    }
                };
                if plant {
                    logcap::clear_canaries();
                }
                if o.handler_stuck {
                    rep.count("tcp_handler_aborted_after_close", 1);
                }
                let detail = |o: &TcpOutcome, got: &Ans| {
                    json!({"layer": "tcp", "cfg": cfg, "sni": v["s"], "alpn": v["a"], "expected": exp_t, "observed": got,
                           "server": format!("{:?}", o.server), "panic": o.panicked,
                           "client": o.client.as_ref().map(|s| json!({"alpn": s.alpn.as_ref().map(|a| String::from_utf8_lossy(a).to_string())})).map_err(|e| e.clone())})
                };
                if let Some(p) = &o.panicked {
                    let got = o.selected.clone().unwrap_or_else(refuse);
                    let sig = format!("demux:tcp:panic:{}:{}:enabled={}", got[0], got[1], enabled.join("+"));
                    rep.violation_with(sig, format!("the connection task panicked: {}", p), || detail(&o, &got));
                    continue;
                }
                let got = o.selected.clone().unwrap_or_else(refuse);
                if !exp_t.contains(&got) {
                    let sig = classify("tcp", &exp_t, &got, &enabled);
                    rep.violation_with(sig, "on_new_tls_connection is outside the answer set of Select(cfg, sni, alpn, \"tcp\")", || detail(&o, &got));
                    continue;
                }
                if got[0] == "refuse" {
                    rep.count("tcp_refused", 1);
                    if o.client.is_ok() || o.server.is_ok() {
                        rep.violation_with("demux:tcp:refusal-not-effective", "no selection was made but the connection was not dropped", || detail(&o, &got));
                    }
                    continue;
                }
                rep.count("tcp_served", 1);
                match &o.client {
                    Err(_) => {
                        rep.violation_with(format!("demux:tcp:handshake-failed:{}:{}", got[0], got[1]), "a selection was made but the TLS handshake failed", || detail(&o, &got));
                    }
                    Ok(seen) => {
                        if Some(&seen.cert) != certs.der.get(&got[2]) {
                            rep.violation_with("demux:tcp:certificate-shown", "the client was shown another certificate than the selected entry's", || detail(&o, &got));
                        }
                        let want = if alpn.is_empty() { None } else { Some(proto_alpn(&got[1]).to_vec()) };
                        if seen.alpn != want {
                            rep.violation_with(format!("demux:tcp:alpn-not-pinned:{}", got[1]), "the negotiated ALPN is not the selected protocol", || detail(&o, &got));
                        }
                    }
                }
            }
        }
        let _ = trusttunnel::verif::stop_recording();
    }
    rep.finish(out_path)
}

// ------------------------------------------------------------------ job: reload

struct Lcg(u64);

impl Lcg {
    fn next(&mut self, n: u64) -> u64 {
        self.0 = self.0.wrapping_mul(6364136223846793005).wrapping_add(1442695040888963407);
        (self.0 >> 33) % n
    }
}

fn job_reload(vectors: &str, out_path: &str) {
    let mut rep = Report::new("c05.reload");
    let trace_path = arg("--trace").expect("--trace");
    let spec = read_tagged(vectors, "RELOAD").into_iter().next().expect("RELOAD line");
    let cfgs = spec["cfgs"].as_array().unwrap().clone();
    let queries = spec["queries"].as_array().unwrap().clone();
    let names: Vec<String> = cfgs
        .iter()
        .flat_map(|c| c["hosts"].as_array().unwrap().iter().map(|h| h["cert"].as_str().unwrap().to_string()).collect::<Vec<_>>())
        .collect();
    let dir = format!("{}/c05-reload-certs", std::env::current_dir().unwrap().display());
    let certs = Arc::new(Certs::copies(&dir, &names));
    let rounds: u64 = arg_or("--rounds", "60").parse().unwrap();
    let readers: u64 = arg_or("--readers", "3").parse().unwrap();
    let seed = seed();

    // the settings objects are parsed while every file exists; the files of a configuration
    // with files = FALSE are removed afterwards and stay removed
    let hosts_for = {
        let certs = certs.clone();
        let cfgs = cfgs.clone();
        move |i: usize| make_hosts(&cfgs[i - 1], &certs)
    };
    let mut missing: Vec<(usize, String)> = Vec::new();
    for (i, c) in cfgs.iter().enumerate() {
        if !c["files"].as_bool().unwrap() {
            for h in c["hosts"].as_array().unwrap() {
                missing.push((i + 1, certs.crt(h["cert"].as_str().unwrap())));
            }
        }
    }
    let core = Arc::new(DemuxCore::new(make_settings(&cfgs[0]), hosts_for(1)).expect("start-up configuration"));
    trusttunnel::verif::demux::reset_version();
    trusttunnel::verif::start_recording();
    watchdog::arm(out_path, Duration::from_secs(120));
    watchdog::enter(|| ("demux:reload:hang".to_string(), "reload/select threads did not finish (lock never released)".to_string(), json!({"layer": "reload"})));

    let do_reload = {
        let core = core.clone();
        let missing = missing.clone();
        let hosts_for = hosts_for.clone();
        move |i: usize| -> Result<bool, String> {
            let hosts = hosts_for(i);
            let removed: Vec<&String> = missing.iter().filter(|(k, _)| *k == i).map(|(_, p)| p).collect();
            let mut saved = Vec::new();
            for p in &removed {
                saved.push(std::fs::read(p).unwrap());
                std::fs::remove_file(p).unwrap();
            }
            let r = catch(|| core.reload(i as u64, hosts));
            for (p, s) in removed.iter().zip(saved) {
                std::fs::write(p, s).unwrap();
            }
            r.map(|x| x.is_ok())
        }
    };
    let do_select = {
        let core = core.clone();
        let queries = queries.clone();
        move |r: &str, q: usize| -> Result<(), String> {
            let qq = &queries[q - 1];
            catch(|| {
                let _ = core.select_logged(r, q as u64, &alpn_of(&qq["alpn"]), &render(&qq["sni"]));
            })
        }
    };

    // deterministic prologue: every configuration is tried, every query asked after each attempt
    let mut panics: Vec<String> = Vec::new();
    for i in (1..=cfgs.len()).chain([2, 1]) {
        match do_reload(i) {
            Ok(ok) => rep.count(if ok { "reloads_ok" } else { "reloads_failed" }, 1),
            Err(p) => panics.push(format!("reload {}: {}", i, p)),
        }
        for q in 1..=queries.len() {
            rep.eval();
            if let Err(p) = do_select("r1", q) {
                panics.push(format!("select {}: {}", q, p));
            }
        }
    }

    // concurrent phase
    let mut handles = Vec::new();
    {
        let do_reload = do_reload.clone();
        let n = cfgs.len() as u64;
        handles.push(std::thread::spawn(move || {
            let mut rng = Lcg(seed ^ 0x5eed);
            let mut out = (0u64, 0u64, Vec::new());
            for _ in 0..rounds {
                match do_reload(1 + rng.next(n) as usize) {
                    Ok(true) => out.0 += 1,
                    Ok(false) => out.1 += 1,
                    Err(p) => out.2.push(format!("reload: {}", p)),
                }
                if rng.next(3) == 0 {
                    std::thread::yield_now();
                }
            }
            out
        }));
    }
    for r in 1..=readers {
        let do_select = do_select.clone();
        let nq = queries.len() as u64;
        handles.push(std::thread::spawn(move || {
            let mut rng = Lcg(seed.wrapping_add(r * 7919));
            let name = format!("r{}", r);
            let mut out = (0u64, 0u64, Vec::new());
            for _ in 0..rounds * 3 {
                if let Err(p) = do_select(&name, 1 + rng.next(nq) as usize) {
                    out.2.push(format!("select: {}", p));
                }
                out.0 += 1;
            }
            out
        }));
    }
    for (i, h) in handles.into_iter().enumerate() {
        match h.join() {
            Ok((a, b, p)) => {
                if i == 0 {
                    rep.count("reloads_ok", a);
                    rep.count("reloads_failed", b);
                } else {
                    rep.evals(a);
                }
                panics.extend(p);
            }
            Err(_) => panics.push("thread died".into()),
        }
    }
    watchdog::leave();
    for p in &panics {
        rep.violation_with("demux:reload:panic", "a reload or a selection panicked while they ran concurrently", || json!({"layer": "reload", "panic": p}));
    }

    // the trace, with certificate paths and credentials mapped back to the names of the model
    let lines = trusttunnel::verif::stop_recording();
    let mut out = String::new();
    let mut overlapped = 0u64;
    let mut open_sel = 0i64;
    for l in &lines {
        let mut v: Value = serde_json::from_str(l).unwrap_or_else(|e| panic!("event {}: {}", l, e));
        match v["ev"].as_str().unwrap() {
            "SelStart" => open_sel += 1,
            "SelEnd" => open_sel -= 1,
            "ReloadSwap" if open_sel > 0 => overlapped += 1,
            _ => {}
        }
        if v.get("res").is_some() {
            let r = v["res"].clone();
            let ans: Vec<String> = if r["kind"] == "refuse" {
                refuse().to_vec()
            } else {
                vec![
                    r["channel"].as_str().unwrap().to_string(),
                    r["proto"].as_str().unwrap().to_string(),
                    certs.name_of(r["cert"].as_str().unwrap()),
                    match r["creds"].as_str().unwrap() {
                        "-" => "-".to_string(),
                        s => unlabel(s),
                    },
                ]
            };
            v["res"] = json!(ans);
        }
        out += &serde_json::to_string(&v).unwrap();
        out.push('\n');
    }
    std::fs::write(&trace_path, out).unwrap();
    rep.count("trace_events", lines.len() as u64);
    rep.count("swaps_while_a_selection_was_open", overlapped);
    for l in lines.iter().filter(|l| l.contains("SelDone")).take(3) {
        rep.sample(serde_json::from_str(l).unwrap());
    }
    rep.nontrivial("reload-trace");
    rep.finish(out_path)
}

fn main() {
    quiet_panics();
    logcap::install();
    let out_path = arg("--out").expect("--out");
    let vectors = arg("--vectors").expect("--vectors");
    match arg_or("--job", "table").as_str() {
        "table" => job_table(&vectors, &out_path),
        "reload" => job_reload(&vectors, &out_path),
        o => panic!("unknown job {}", o),
    }
}
