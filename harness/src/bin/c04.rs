//! C04 — connection filtering rules. Replays the decision tables TLC computed from
//! Rules.tla into the real implementation:
//!   * table mode: every rule list is rendered to a rules.toml, loaded through `Settings`
//!     deserialisation (deserialize_rules), and evaluated at every (address, random) point
//!     through the public `RulesEngine::evaluate` and through `Core::evaluate_connection_rules`;
//!   * wire mode: a real `Core` listens on loopback (IPv4 listener and dual-stack `[::]`
//!     listener); real ClientHellos whose random field the harness controls are sent from
//!     chosen loopback source addresses; "ServerHello bytes" vs "closed with zero bytes" and
//!     the Accepted/RulesEval/TlsAcceptStart hook events are compared with TLC's table,
//!     and the events are written as a trace for RulesTrace.tla;
//!   * totality mode (C09): garbage rules files must not panic the loader.
//! The only oracle is the table in the TLC output.

#[path = "admission/common.rs"]
mod common;

use common::*;
use serde_json::{json, Value};
use std::net::{IpAddr, SocketAddr};
use std::time::Duration;
use tokio::io::{AsyncReadExt, AsyncWriteExt};
use trusttunnel::core::Core;
use trusttunnel::settings::{Settings, TlsHostInfo, TlsHostsSettings};
use trusttunnel::shutdown::Shutdown;
use trusttunnel::verif;
use ttv::*;

struct AddrD {
    fam: String,
    door: String,
    wire: String,
    canon_door: String,
    canon_wire: String,
}

struct RndD {
    present: bool,
    bytes: Vec<u8>,
}

struct Dom {
    addrs: Vec<AddrD>,
    rnds: Vec<RndD>,
}

fn s(v: &Value) -> String {
    v.as_str().unwrap_or("").to_string()
}

fn read_dom(path: &str) -> Dom {
    let d = read_tagged(path, "DOM");
    assert_eq!(d.len(), 1, "exactly one DOM line expected in {}", path);
    let d = &d[0];
    Dom {
        addrs: d["addrs"].as_array().unwrap().iter().map(|a| AddrD {
            fam: s(&a["fam"]), door: s(&a["door"]), wire: s(&a["wire"]),
            canon_door: s(&a["canon_door"]), canon_wire: s(&a["canon_wire"]),
        }).collect(),
        rnds: d["rnds"].as_array().unwrap().iter().map(|r| RndD {
            present: r["present"].as_bool().unwrap(),
            bytes: hex::decode(s(&r["hex"])).expect("hex"),
        }).collect(),
    }
}

fn opt_str(v: &Value) -> Option<String> {
    v.as_array().and_then(|a| a.first()).map(s)
}

/// rules.toml text of a vector. TOML basic strings; the universe has no characters to escape.
fn render_rules(vec: &Value, wire: bool) -> String {
    let mut t = String::from("# generated from a TLC vector\n");
    for r in vec["rules"].as_array().unwrap() {
        t.push_str("\n[[rule]]\n");
        if let Some(c) = opt_str(if wire { &r["cidr_wire"] } else { &r["cidr"] }) {
            t.push_str(&format!("cidr = \"{}\"\n", c));
        }
        if let Some(p) = opt_str(&r["pat"]) {
            t.push_str(&format!("client_random_prefix = \"{}\"\n", p));
        }
        t.push_str(&format!("action = \"{}\"\n", s(&r["action"])));
    }
    t
}

struct Scratch {
    dir: String,
    cert: String,
    creds: String,
}

impl Scratch {
    fn new(out: &str) -> Scratch {
        let dir = format!("{}.d", out);
        let _ = std::fs::remove_dir_all(&dir);
        std::fs::create_dir_all(&dir).expect("scratch dir");
        let cert = write_cert(&dir);
        let creds = format!("{}/credentials.toml", dir);
        std::fs::write(&creds, "[[client]]\nusername = \"c04-user-canary\"\npassword = \"c04-pass-canary-7391\"\n").unwrap();
        logcap::plant("credentials", "c04-pass-canary-7391", &["c04-user-canary"]);
        Scratch { dir, cert, creds }
    }
}

/// Materialise the file kind of a vector; returns the `rules_file = ...` line (or nothing)
fn rules_file_line(sc: &Scratch, vec: &Value, wire: bool, variant: usize) -> String {
    let path = format!("{}/rules.toml", sc.dir);
    match vec["file"].as_str().unwrap() {
        "ok" => {
            std::fs::write(&path, render_rules(vec, wire)).unwrap();
            format!("rules_file = \"{}\"\n", path)
        }
        "unreadable" => {
            if variant % 2 == 0 {
                format!("rules_file = \"{}/no-such-rules.toml\"\n", sc.dir)
            } else {
                format!("rules_file = \"{}\"\n", sc.dir) // a directory
            }
        }
        "unparsable" => {
            std::fs::write(&path, "[[rule]\ncidr = \"127.0.0.0/8\naction = deny\n").unwrap();
            format!("rules_file = \"{}\"\n", path)
        }
        "norules" => String::new(),
        k => panic!("unknown file kind {}", k),
    }
}

fn settings_toml(listen: &str, rules_line: &str, creds: Option<&str>) -> String {
    let mut t = format!("listen_address = \"{}\"\ntls_handshake_timeout_secs = 120\n", listen);
    t.push_str(rules_line);
    if let Some(c) = creds {
        t.push_str(&format!("credentials_file = \"{}\"\n", c));
    }
    t.push_str("\n[listen_protocols.http1]\n\n[listen_protocols.http2]\n");
    t
}

fn hosts(sc: &Scratch) -> TlsHostsSettings {
    TlsHostsSettings::builder()
        .main_hosts(vec![TlsHostInfo {
            hostname: MAIN_HOST.to_string(),
            cert_chain_path: sc.cert.clone(),
            private_key_path: sc.cert.clone(),
            allowed_sni: vec![],
        }])
        .build()
        .expect("hosts settings")
}

fn make_core(settings: Settings, sc: &Scratch) -> Result<Core, String> {
    Core::new(settings, None, hosts(sc), Shutdown::new()).map_err(|e| format!("{:?}", e))
}

fn vec_brief(vec: &Value) -> Value {
    json!({"file": vec["file"], "rules": vec["rules"].as_array().unwrap().iter().map(|r| json!({
        "cidr": opt_str(&r["cidr"]), "cidr_wire": opt_str(&r["cidr_wire"]), "client_random_prefix": opt_str(&r["pat"]), "action": r["action"]})).collect::<Vec<_>>()})
}

fn expect_allow(vec: &Value, a: usize, r: usize) -> bool {
    vec["table"][a][r].as_u64().expect("table entry") == 1
}

fn verdict(b: bool) -> &'static str {
    if b { "allow" } else { "deny" }
}

// ------------------------------------------------------------------ table mode

fn table_mode(rep: &mut Report, vectors: &str, sc: &Scratch) {
    let dom = read_dom(vectors);
    let mut vecs = read_tagged(vectors, "VEC");
    vecs.sort_by_key(|v| v["rules"].as_array().unwrap().len()); // minimal failing vectors first
    rep.count("tlc_vectors", vecs.len() as u64);
    rep.count("tlc_points", (vecs.len() * dom.addrs.len() * dom.rnds.len()) as u64);
    let ips_door: Vec<IpAddr> = dom.addrs.iter().map(|a| a.door.parse().expect("door address")).collect();
    let ips_canon: Vec<IpAddr> = dom.addrs.iter().map(|a| a.canon_door.parse().expect("canonical address")).collect();

    // an unreadable file is materialised twice: a path that does not exist, and a directory
    let expanded: Vec<(usize, &Value)> = vecs.iter().flat_map(|v| if v["file"] == "unreadable" { vec![(0, v), (1, v)] } else { vec![(0, v)] }).collect();
    for (vi, (variant, vec)) in expanded.iter().enumerate() {
        let vec = *vec;
        let file = s(&vec["file"]);
        let line = rules_file_line(sc, vec, false, *variant);
        let text = settings_toml("127.0.0.1:0", &line, None);
        let brief = || vec_brief(vec);
        let settings = match catch(|| toml::from_str::<Settings>(&text)) {
            Err(p) => {
                rep.violation_with(format!("c04:load:{}:panic", file), format!("loading the rules file panicked: {}", p), || json!({"vector": brief(), "settings": text}));
                continue;
            }
            Ok(Err(e)) => {
                rep.violation_with(format!("c04:load:{}:error", file), "settings with this rules file are rejected (documented: bad rules never stop the endpoint)", || json!({"vector": brief(), "error": e.to_string()}));
                continue;
            }
            Ok(Ok(x)) => x,
        };
        // load-time projection: how many rules survived
        let kept = vec["rules"].as_array().unwrap().iter().filter(|r| r["kept"].as_bool().unwrap()).count();
        let kept = if file == "ok" { kept } else { 0 };
        // no engine at all (no rules_file key) holds no rules
        match verif::rules::engine_rule_count(&settings).or(Some(0)) {
            Some(n) if n == kept => {}
            got => rep.violation_with(format!("c04:load:{}:kept", file), "number of rules kept by the loader differs from the specification's", || json!({"vector": brief(), "expected_kept": kept, "observed": got})),
        }
        if vec["rules"].as_array().unwrap().iter().any(|r| !r["kept"].as_bool().unwrap()) {
            rep.count("lists_with_dropped_rule", 1);
        }
        // engine level (public API), on the canonical address
        let mut engine_obs = vec![vec![true; dom.rnds.len()]; dom.addrs.len()];
        for a in 0..dom.addrs.len() {
            for (r, rd) in dom.rnds.iter().enumerate() {
                let rnd = if rd.present { Some(rd.bytes.as_slice()) } else { None };
                engine_obs[a][r] = match catch(|| verif::rules::engine_evaluate(&settings, ips_canon[a], rnd)) {
                    Ok(Some(x)) => x,
                    Ok(None) => true, // no engine = nothing filters
                    Err(p) => {
                        rep.violation_with(format!("c04:engine:{}:panic", file), format!("RulesEngine::evaluate panicked: {}", p), || json!({"vector": brief(), "ip": dom.addrs[a].canon_door, "random": hex(&rd.bytes)}));
                        true
                    }
                };
            }
        }
        let core = match make_core(settings, sc) {
            Ok(c) => c,
            Err(e) => tool_error(&format!("Core::new failed: {}", e)),
        };
        for a in 0..dom.addrs.len() {
            for (r, rd) in dom.rnds.iter().enumerate() {
                let exp = expect_allow(vec, a, r);
                let rnd = if rd.present { Some(rd.bytes.as_slice()) } else { None };
                rep.eval();
                if !exp {
                    rep.nontrivial(format!("{}|{}|{}", vi, a, r));
                }
                let cls = format!("{}:{}:{}:exp-{}", file, dom.addrs[a].fam, if rd.present { "rnd" } else { "nornd" }, verdict(exp));
                if engine_obs[a][r] != exp {
                    rep.violation_with(format!("c04:engine:{}", cls), "RulesEngine::evaluate differs from the specification's table", || json!({
                        "vector": brief(), "rules_toml": render_rules(vec, false), "ip": dom.addrs[a].canon_door,
                        "random": if rd.present { json!(hex(&rd.bytes)) } else { Value::Null }, "expected": verdict(exp), "observed": verdict(engine_obs[a][r])}));
                }
                match catch(|| verif::rules::evaluate_connection_rules(&core, ips_door[a], rnd)) {
                    Ok(obs) if obs == exp => {}
                    Ok(obs) => rep.violation_with(format!("c04:door:{}", cls), "Core::evaluate_connection_rules differs from the specification's table", || json!({
                        "vector": brief(), "rules_toml": render_rules(vec, false), "peer": dom.addrs[a].door, "canonical": dom.addrs[a].canon_door,
                        "random": if rd.present { json!(hex(&rd.bytes)) } else { Value::Null }, "expected": verdict(exp), "observed": verdict(obs)})),
                    Err(p) => rep.violation_with(format!("c04:door:{}:panic", file), format!("evaluate_connection_rules panicked: {}", p), || json!({"vector": brief(), "peer": dom.addrs[a].door})),
                }
            }
        }
        if vi % 401 == 7 {
            rep.sample(json!({"vector": brief(), "table_row_for": dom.addrs[0].door, "row": vec["table"][0]}));
        }
        if vec["order"].as_bool() == Some(true) {
            rep.count("order_sensitive_lists", 1);
        }
        if vec["shadow"].as_bool() == Some(true) {
            rep.count("lists_with_shadowed_match", 1);
        }
        if vec["failclosed"].as_bool() == Some(true) {
            rep.count("lists_needing_random", 1);
        }
    }
}

// ------------------------------------------------------------------ wire mode

#[derive(Debug, PartialEq, Clone)]
enum Seen {
    /// the endpoint answered: n bytes, first byte
    Answer(usize, u8),
    /// closed (EOF or reset) without a single byte
    ClosedEmpty,
    Timeout,
    ConnectFailed(String),
}

async fn one_connection(src: IpAddr, dst: SocketAddr, flight: &[u8]) -> Seen {
    // connect, retrying while the listener is not up yet
    let mut stream = None;
    let mut last = String::new();
    for _ in 0..400 {
        let sock = match src {
            IpAddr::V4(_) => tokio::net::TcpSocket::new_v4(),
            IpAddr::V6(_) => tokio::net::TcpSocket::new_v6(),
        }
        .expect("socket");
        if let Err(e) = sock.bind(SocketAddr::new(src, 0)) {
            return Seen::ConnectFailed(format!("bind {}: {}", src, e));
        }
        match tokio::time::timeout(Duration::from_secs(30), sock.connect(dst)).await {
            Ok(Ok(s)) => {
                stream = Some(s);
                break;
            }
            Ok(Err(e)) => last = e.to_string(),
            Err(_) => last = "connect timed out".into(),
        }
        tokio::time::sleep(Duration::from_millis(25)).await;
    }
    let mut stream = match stream {
        Some(s) => s,
        None => return Seen::ConnectFailed(last),
    };
    let _ = stream.set_nodelay(true);
    if stream.write_all(flight).await.is_err() {
        return Seen::ClosedEmpty;
    }
    let mut buf = [0u8; 4096];
    match tokio::time::timeout(Duration::from_secs(90), stream.read(&mut buf)).await {
        Err(_) => Seen::Timeout,
        Ok(Ok(0)) | Ok(Err(_)) => Seen::ClosedEmpty,
        Ok(Ok(n)) => Seen::Answer(n, buf[0]),
    }
}

struct WireCase {
    a: usize,         // row of the table (address as the listener reports it)
    r: usize,
    src: IpAddr,      // source address the client binds
    dst: SocketAddr,
}

fn wire_mode(rep: &mut Report, vectors: &str, sc: &Scratch, trace_out: Option<String>) {
    let dom = read_dom(vectors);
    let vecs = read_tagged(vectors, "VEC");
    rep.count("tlc_vectors", vecs.len() as u64);
    let base = Hello::real(MAIN_HOST, &["h2", "http/1.1"]);
    let mut trace: Vec<String> = Vec::new();
    let rt = tokio::runtime::Builder::new_current_thread().enable_all().build().unwrap();

    for (vi, vec) in vecs.iter().enumerate() {
        for listener in ["v4", "dual"] {
            let file = s(&vec["file"]);
            let bind_ip: IpAddr = if listener == "v4" { "127.0.0.1".parse().unwrap() } else { "::".parse().unwrap() };
            let mut done = false;
            for attempt in 0..5 {
                let port = free_port(bind_ip);
                let listen = SocketAddr::new(bind_ip, port);
                let line = rules_file_line(sc, vec, true, vi);
                let text = settings_toml(&listen.to_string(), &line, if listener == "dual" { Some(&sc.creds) } else { None });
                let settings = toml::from_str::<Settings>(&text).unwrap_or_else(|e| tool_error(&format!("settings: {}\n{}", e, text)));
                let core = make_core(settings, sc).unwrap_or_else(|e| tool_error(&format!("Core::new: {}", e)));
                // the connections this listener can see
                let mut cases = Vec::new();
                for (a, ad) in dom.addrs.iter().enumerate() {
                    let (src, dst): (IpAddr, SocketAddr) = match (listener, ad.fam.as_str()) {
                        ("v4", "v4") => (ad.wire.parse().unwrap(), SocketAddr::new("127.0.0.1".parse().unwrap(), port)),
                        // an IPv4 client of a dual-stack listener is reported in mapped form
                        ("dual", "v4mapped") => (ad.canon_wire.parse().unwrap(), SocketAddr::new("127.0.0.1".parse().unwrap(), port)),
                        ("dual", "v6") if ad.wire == "::1" => ("::1".parse().unwrap(), SocketAddr::new("::1".parse().unwrap(), port)),
                        _ => continue,
                    };
                    for r in 0..dom.rnds.len() {
                        cases.push(WireCase { a, r, src, dst });
                    }
                }
                verif::start_recording();
                let res: Result<(), String> = rt.block_on(async {
                    tokio::select! {
                        x = core.listen() => Err(format!("listen returned: {:?}", x.err().map(|e| e.to_string()))),
                        _ = run_cases(rep, &dom, vec, vi, listener, &cases, &base, &mut trace) => Ok(()),
                    }
                });
                verif::stop_recording();
                drop(core);
                match res {
                    Ok(()) => {
                        done = true;
                        break;
                    }
                    Err(e) => rep.note(format!("listener {} on {} attempt {}: {}", listener, listen, attempt, e)),
                }
                let _ = file;
            }
            if !done {
                tool_error("could not start a listener after 5 attempts");
            }
        }
    }
    if let Some(p) = trace_out {
        std::fs::write(&p, trace.join("\n") + "\n").expect("write trace");
        rep.count("trace_lines", trace.len() as u64);
    }
}

#[allow(clippy::too_many_arguments)]
async fn run_cases(rep: &mut Report, dom: &Dom, vec: &Value, vi: usize, listener: &str, cases: &[WireCase], base: &Hello, trace: &mut Vec<String>) {
    let file = s(&vec["file"]);
    // environment events of the trace: the file that was loaded and the listener
    trace.push(json!({"ev": "Load", "file": vec["file"], "idx": vec["idx"], "listener": listener}).to_string());
    for c in cases {
        let ad = &dom.addrs[c.a];
        let rd = &dom.rnds[c.r];
        let exp = expect_allow(vec, c.a, c.r);
        // the flight: a present random is patched into the real hello; an absent one is a hello
        // cut into two TLS records (the peek cannot find the random, the TLS stack still can)
        let flight = if rd.present {
            let mut h = base.clone();
            h.set_random(&rd.bytes);
            h.one_record()
        } else {
            base.to_records(&[40])
        };
        let cls = format!("{}:{}:{}:{}:exp-{}", listener, file, ad.fam, if rd.present { "rnd" } else { "nornd" }, verdict(exp));
        let mut last = None;
        let mut ok = false;
        for _try in 0..3 {
            let _ = verif::drain_events();
            let t0 = std::time::Instant::now();
            let seen = one_connection(c.src, c.dst, &flight).await;
            let ms = t0.elapsed().as_millis() as u64;
            if ms > 5000 {
                rep.note(format!("slow connection: {} ms, listener {}, peer {}, saw {:?}", ms, listener, ad.wire, seen));
            }
            if _try > 0 {
                rep.count("wire_retries", 1);
            }
            // let the server task finish its bookkeeping (order facts only, no timing asserted)
            tokio::task::yield_now().await;
            let events: Vec<Value> = verif::drain_events().iter().filter_map(|l| serde_json::from_str(l).ok()).collect();
            let good = match (&seen, exp) {
                (Seen::Answer(_, 22), true) => true,
                (Seen::ClosedEmpty, false) => true,
                _ => false,
            };
            let evs = check_events(&events, ad, rd, exp);
            last = Some((seen.clone(), events.clone(), evs.clone()));
            if good && evs.is_none() {
                ok = true;
                // trace for RulesTrace.tla: code events + what the client saw
                for e in &events {
                    if matches!(e["ev"].as_str(), Some("Accepted") | Some("RulesEval") | Some("TlsAcceptStart")) {
                        trace.push(e.to_string());
                    }
                }
                trace.push(match seen {
                    Seen::Answer(n, b) => json!({"ev": "ClientSaw", "bytes": n, "first": b}),
                    _ => json!({"ev": "ClientSaw", "bytes": 0, "first": 0}),
                }.to_string());
                break;
            }
        }
        rep.eval();
        if !exp {
            rep.nontrivial(format!("{}|{}|{}|{}", vi, listener, c.a, c.r));
        }
        if !ok {
            let (seen, events, evs) = last.unwrap();
            rep.violation_with(format!("c04:wire:{}", cls),
                format!("real listener ({}): {} for peer {} where the specification says {}", listener,
                        evs.clone().unwrap_or_else(|| format!("client saw {:?}", seen)), ad.wire, verdict(exp)),
                || json!({"vector": vec_brief(vec), "rules_toml": render_rules(vec, true), "listener": listener, "client_source": c.src.to_string(),
                          "peer_as_reported": ad.wire, "canonical": ad.canon_wire, "random": if rd.present { json!(hex(&rd.bytes)) } else { Value::Null },
                          "expected": verdict(exp), "client_saw": format!("{:?}", seen), "events": events, "event_check": evs}));
        }
        if rep.evaluations % 97 == 5 {
            rep.sample(json!({"vector": vec_brief(vec), "listener": listener, "peer": ad.wire, "random": hex(&rd.bytes), "expected": verdict(exp)}));
        }
    }
}

/// Order/eventual facts about the hook events of one connection, against the vector
fn check_events(events: &[Value], ad: &AddrD, rd: &RndD, exp: bool) -> Option<String> {
    let pos = |name: &str| events.iter().position(|e| e["ev"] == name);
    let acc = match pos("Accepted") {
        Some(i) => i,
        None => return Some("no Accepted event".into()),
    };
    if events[acc]["peer"] != ad.wire.as_str() {
        return Some(format!("listener reported peer {} (expected form {})", events[acc]["peer"], ad.wire));
    }
    let ev = match pos("RulesEval") {
        Some(i) => i,
        None => return Some("rules were never evaluated for this connection".into()),
    };
    if ev < acc {
        return Some("RulesEval before Accepted".into());
    }
    let e = &events[ev];
    // which spelling of the address the evaluation was handed is an implementation detail
    // (informative in the trace); what is compared is the verdict
    if e["ip"] != ad.canon_wire.as_str() && e["ip"] != ad.wire.as_str() {
        return Some(format!("rules evaluated on {}, which is not the peer {}", e["ip"], ad.wire));
    }
    let want_rnd = if rd.present { json!(hex(&rd.bytes)) } else { Value::Null };
    if e["random"] != want_rnd {
        return Some(format!("rules evaluated with client random {} instead of {}", e["random"], want_rnd));
    }
    if e["verdict"] != verdict(exp) {
        return Some(format!("verdict {}", e["verdict"]));
    }
    match (pos("TlsAcceptStart"), exp) {
        (Some(t), true) if t > ev => None,
        (Some(_), true) => Some("TLS accept started before the rules were evaluated".into()),
        (None, true) => Some("allowed connection never reached the TLS accept".into()),
        (Some(_), false) => Some("TLS accept started for a denied connection".into()),
        (None, false) => None,
    }
}

// ------------------------------------------------------------------ totality (C09)

fn totality_mode(rep: &mut Report, sc: &Scratch) {
    let path = format!("{}/rules.toml", sc.dir);
    let valid = "[[rule]]\ncidr = \"10.0.0.0/8\"\nclient_random_prefix = \"a0b0/f0f0\"\naction = \"deny\"\n\n[[rule]]\naction = \"allow\"\n";
    let mut inputs: Vec<(String, Vec<u8>)> = vec![
        ("empty".into(), vec![]),
        ("valid".into(), valid.as_bytes().to_vec()),
        ("rule-not-array".into(), b"rule = 5\n".to_vec()),
        ("rule-inline-array".into(), b"rule = [1, 2]\n".to_vec()),
        ("rule-table".into(), b"[rule]\naction = \"deny\"\n".to_vec()),
        ("missing-action".into(), b"[[rule]]\ncidr = \"10.0.0.0/8\"\n".to_vec()),
        ("action-int".into(), b"[[rule]]\naction = 7\n".to_vec()),
        ("cidr-int".into(), b"[[rule]]\ncidr = 7\naction = \"deny\"\n".to_vec()),
        ("cidr-array".into(), b"[[rule]]\ncidr = [\"10.0.0.0/8\"]\naction = \"deny\"\n".to_vec()),
        ("prefix-bool".into(), b"[[rule]]\nclient_random_prefix = true\naction = \"deny\"\n".to_vec()),
        ("prefix-slashes".into(), b"[[rule]]\nclient_random_prefix = \"//\"\naction = \"deny\"\n".to_vec()),
        ("prefix-slash-only".into(), b"[[rule]]\nclient_random_prefix = \"/\"\naction = \"deny\"\n".to_vec()),
        ("prefix-unicode".into(), "[[rule]]\nclient_random_prefix = \"a\u{e9}/\u{e9}\"\naction = \"deny\"\n".as_bytes().to_vec()),
        ("cidr-huge-prefix".into(), b"[[rule]]\ncidr = \"10.0.0.0/4294967296\"\naction = \"deny\"\n".to_vec()),
        ("cidr-empty".into(), b"[[rule]]\ncidr = \"\"\naction = \"deny\"\n".to_vec()),
        ("nul".into(), b"[[rule]]\naction = \"de\0ny\"\n".to_vec()),
        ("invalid-utf8".into(), vec![0xff, 0xfe, b'[', b'[', b'r']),
        ("deep".into(), format!("[[rule]]\naction = \"deny\"\n{}", "[[rule.x]]\ny = 1\n".repeat(50)).into_bytes()),
    ];
    // truncations and single-byte mutations of the valid file
    for n in 0..valid.len() {
        inputs.push((format!("trunc"), valid.as_bytes()[..n].to_vec()));
    }
    for n in 0..valid.len() {
        for b in [b'"', b'[', b'\n', b'=', 0u8, 0xc3] {
            let mut v = valid.as_bytes().to_vec();
            v[n] = b;
            inputs.push((format!("mut"), v));
        }
    }
    let ips: Vec<IpAddr> = ["10.1.2.3", "::ffff:10.1.2.3", "2001:db8::1", "0.0.0.0"].iter().map(|x| x.parse().unwrap()).collect();
    let rnds: Vec<Option<Vec<u8>>> = vec![None, Some(vec![]), Some(vec![0xa5; 32]), Some(vec![0xa0])];
    for (kind, bytes) in inputs {
        std::fs::write(&path, &bytes).unwrap();
        let text = settings_toml("127.0.0.1:0", &format!("rules_file = \"{}\"\n", path), None);
        rep.eval();
        let (k2, b2) = (kind.clone(), bytes.clone());
        watchdog::enter(move || (format!("c09:rules:{}:hang", k2), "rules loader did not return".into(), json!({"file_hex": hex(&b2)})));
        let r = catch(|| {
            let st = toml::from_str::<Settings>(&text);
            if let Ok(st) = &st {
                for ip in &ips {
                    for rnd in &rnds {
                        let _ = verif::rules::engine_evaluate(st, *ip, rnd.as_deref());
                    }
                }
            }
            st.is_ok()
        });
        watchdog::leave();
        match r {
            Ok(true) => rep.count("loaded", 1),
            // a rejected start-up is "an error confined to the start-up that supplied it"
            Ok(false) => rep.count("rejected", 1),
            Err(p) => rep.violation_with(format!("c09:rules:{}:panic", kind), format!("rules file makes the loader/evaluator panic: {}", p), || json!({"file_hex": hex(&bytes), "file_text": String::from_utf8_lossy(&bytes)})),
        }
        if kind != "trunc" && kind != "mut" {
            rep.nontrivial(kind);
        }
    }
}

/// A failure of the tooling itself (not of the code under test): loud, exit 2
fn tool_error(msg: &str) -> ! {
    eprintln!("tool error: {}", msg);
    std::process::exit(2)
}

fn main() {
    quiet_panics();
    logcap::install();
    let out_path = arg("--out").expect("--out");
    let mode = arg_or("--mode", "table");
    let mut rep = Report::new(&format!("c04.{}", mode));
    watchdog::arm(&out_path, Duration::from_secs(if mode == "wire" { 900 } else { 60 }));
    let sc = Scratch::new(&out_path);
    match mode.as_str() {
        "table" => table_mode(&mut rep, &arg("--vectors").expect("--vectors"), &sc),
        "wire" => wire_mode(&mut rep, &arg("--vectors").expect("--vectors"), &sc, arg("--trace-out")),
        "totality" => totality_mode(&mut rep, &sc),
        m => panic!("unknown mode {}", m),
    }
    let _ = std::fs::remove_dir_all(&sc.dir);
    rep.finish(&out_path)
}
