//! Common plumbing of the conformance harness: result files, panic capture,
//! the capturing logger used for the secrets discipline (C20), vector loading.

use serde_json::{json, Value};
use std::collections::BTreeMap;
use std::io::BufRead;
use std::panic::{catch_unwind, AssertUnwindSafe};
use std::sync::Mutex;

pub mod logcap;
pub mod tunnel_env;

/// One divergence between the specification and the implementation
#[derive(Debug, Clone)]
pub struct Violation {
    /// canonical signature of the failing input/schedule class (used for known findings)
    pub sig: String,
    /// human-readable one-liner
    pub what: String,
    /// everything needed to replay (vector, observed, expected)
    pub detail: Value,
}

/// Accumulates what a job covered and what it found; serialised for the driver
#[derive(Default)]
pub struct Report {
    pub job: String,
    pub evaluations: u64,
    pub nontrivial: std::collections::BTreeSet<String>,
    pub violations: Vec<Violation>,
    pub samples: Vec<Value>,
    pub counters: BTreeMap<String, u64>,
    pub notes: Vec<String>,
    max_violations: usize,
}

impl Report {
    pub fn new(job: &str) -> Self {
        Self {
            job: job.to_string(),
            max_violations: 200,
            ..Default::default()
        }
    }

    pub fn eval(&mut self) {
        self.evaluations += 1;
    }

    pub fn evals(&mut self, n: u64) {
        self.evaluations += n;
    }

    /// Count a distinct non-trivial case under the job's rule
    pub fn nontrivial(&mut self, key: impl Into<String>) {
        if self.nontrivial.len() < 2_000_000 {
            self.nontrivial.insert(key.into());
        }
    }

    pub fn count(&mut self, k: &str, n: u64) {
        *self.counters.entry(k.to_string()).or_insert(0) += n;
    }

    pub fn sample(&mut self, v: Value) {
        if self.samples.len() < 5 {
            self.samples.push(v);
        }
    }

    pub fn note(&mut self, s: impl Into<String>) {
        self.notes.push(s.into());
    }

    pub fn violation(&mut self, sig: impl Into<String>, what: impl Into<String>, detail: Value) {
        self.violation_with(sig, what, || detail)
    }

    /// Like `violation` but the detail is built only if the violation is kept
    pub fn violation_with(
        &mut self,
        sig: impl Into<String>,
        what: impl Into<String>,
        detail: impl FnOnce() -> Value,
    ) {
        let sig = sig.into();
        *self.counters.entry("violations_total".into()).or_insert(0) += 1;
        // keep at most a few per signature, and a global cap
        let same = self.violations.iter().filter(|v| v.sig == sig).count();
        if same < 3 && self.violations.len() < self.max_violations {
            self.violations.push(Violation {
                sig,
                what: what.into(),
                detail: detail(),
            });
        }
    }

    pub fn to_json(&self) -> Value {
        json!({
            "job": self.job,
            "evaluations": self.evaluations,
            "distinct_nontrivial": self.nontrivial.len(),
            "violations": self.violations.iter().map(|v| json!({"sig": v.sig, "what": v.what, "detail": v.detail})).collect::<Vec<_>>(),
            "samples": self.samples,
            "counters": self.counters,
            "notes": self.notes,
            "leaks": logcap::leaks_json(),
            "log_records": logcap::records_seen(),
        })
    }

    /// Write the result file and exit 0 (the driver decides about exit codes)
    pub fn finish(&self, out: &str) -> ! {
        let s = serde_json::to_string(&self.to_json()).unwrap();
        std::fs::write(out, s).expect("write result file");
        std::process::exit(0)
    }
}

static PANIC_MSG: Mutex<Option<String>> = Mutex::new(None);

/// Install a panic hook that remembers the message instead of printing it
pub fn quiet_panics() {
    std::panic::set_hook(Box::new(|info| {
        let msg = format!("{}", info);
        *PANIC_MSG.lock().unwrap_or_else(|e| e.into_inner()) = Some(msg);
    }));
}

/// Run `f`; a panic becomes `Err(message)`
pub fn catch<T>(f: impl FnOnce() -> T) -> Result<T, String> {
    match catch_unwind(AssertUnwindSafe(f)) {
        Ok(x) => Ok(x),
        Err(_) => Err(PANIC_MSG
            .lock()
            .unwrap_or_else(|e| e.into_inner())
            .take()
            .unwrap_or_else(|| "panic".to_string())),
    }
}

/// Lines of a TLC log that were printed with `PrintT(<<tag, ToJson(x)>>)`:
/// `<<"TAG", "{...json...}">>`. Returns the parsed JSON payloads.
pub fn read_tagged(path: &str, tag: &str) -> Vec<Value> {
    let f = std::fs::File::open(path).unwrap_or_else(|e| panic!("open {}: {}", path, e));
    let prefix = format!("<<\"{}\", \"", tag);
    let mut out = Vec::new();
    for line in std::io::BufReader::new(f).lines() {
        let line = line.unwrap();
        if let Some(rest) = line.strip_prefix(&prefix) {
            if let Some(body) = rest.strip_suffix("\">>") {
                // TLC prints the string with TLA+ escapes: \" and \\
                let un = unescape_tla(body);
                match serde_json::from_str::<Value>(&un) {
                    Ok(v) => out.push(v),
                    Err(e) => panic!("bad JSON in TLC output: {} in {}", e, un),
                }
            }
        }
    }
    out
}

fn unescape_tla(s: &str) -> String {
    let mut out = String::with_capacity(s.len());
    let mut it = s.chars();
    while let Some(c) = it.next() {
        if c == '\\' {
            match it.next() {
                Some('"') => out.push('"'),
                Some('\\') => out.push('\\'),
                Some('n') => out.push('\n'),
                Some('t') => out.push('\t'),
                Some(o) => {
                    out.push('\\');
                    out.push(o)
                }
                None => out.push('\\'),
            }
        } else {
            out.push(c);
        }
    }
    out
}

/// JSON array of small integers -> bytes
pub fn bytes_of(v: &Value) -> Vec<u8> {
    v.as_array()
        .map(|a| a.iter().map(|x| x.as_u64().unwrap() as u8).collect())
        .unwrap_or_default()
}

pub fn hex(b: &[u8]) -> String {
    b.iter().map(|x| format!("{:02x}", x)).collect()
}

/// Simple argument access: `--name value`
pub fn arg(name: &str) -> Option<String> {
    let a: Vec<String> = std::env::args().collect();
    a.iter()
        .position(|x| x == name)
        .and_then(|i| a.get(i + 1).cloned())
}

pub fn arg_or(name: &str, d: &str) -> String {
    arg(name).unwrap_or_else(|| d.to_string())
}

pub fn seed() -> u64 {
    std::env::var("VERIF_SEED")
        .ok()
        .and_then(|s| s.parse().ok())
        .unwrap_or(0)
}

pub fn tier_thorough() -> bool {
    arg("--tier").as_deref() == Some("thorough")
}

/// Wall-clock watchdog: a call into the code under test that does not return is data
/// (a wedge), not a tool failure. The driver turns `<out>.hang.json` into a violation.
pub mod watchdog {
    use serde_json::{json, Value};
    use std::sync::Mutex;
    use std::time::{Duration, Instant};

    type Describe = Box<dyn FnOnce() -> (String, String, Value) + Send>;
    static CUR: Mutex<Option<(Instant, Describe)>> = Mutex::new(None);

    /// Start the watchdog thread. If a guarded section lasts longer than `limit` the
    /// case description is written to `<out>.hang.json` and the process exits with 3.
    pub fn arm(out: &str, limit: Duration) {
        let out = out.to_string();
        std::thread::spawn(move || loop {
            std::thread::sleep(Duration::from_millis(200));
            let mut g = CUR.lock().unwrap_or_else(|e| e.into_inner());
            let expired = matches!(&*g, Some((t, _)) if t.elapsed() > limit);
            if expired {
                let (_, d) = g.take().unwrap();
                let (sig, what, detail) = d();
                let v = json!({"sig": sig, "what": what, "detail": detail, "limit_ms": limit.as_millis() as u64});
                let _ = std::fs::write(format!("{}.hang.json", out), serde_json::to_string(&v).unwrap());
                std::process::exit(3);
            }
        });
    }

    /// Enter a guarded section; `describe` is only called if the section hangs
    pub fn enter(describe: impl FnOnce() -> (String, String, Value) + Send + 'static) {
        *CUR.lock().unwrap_or_else(|e| e.into_inner()) = Some((Instant::now(), Box::new(describe)));
    }

    pub fn leave() {
        *CUR.lock().unwrap_or_else(|e| e.into_inner()) = None;
    }
}
