//! Environment shared by the HTTP/3 jobs: a real `Core` with `listen_protocols.quic` enabled that
//! listens on a loopback port (`Core::listen`, i.e. `listen_udp` -> `QuicMultiplexer` ->
//! `on_new_quic_connection` -> `Http3Codec`), and a routing forwarder that lets many scenarios run
//! against one endpoint at the same time: every scenario connects from its own loopback source
//! address (127.x.y.z) and the router hands each forwarder call to the scripted forwarder
//! registered for the calling client's address.
//! Included with `#[path = "../h3env.rs"] mod h3env;`.

#![allow(dead_code)]

use serde_json::{json, Value};
use std::collections::HashMap;
use std::net::{IpAddr, Ipv4Addr, SocketAddr};
use std::sync::{Arc, Mutex};
use std::time::Duration;
use trusttunnel::authentication::registry_based::{Client, RegistryBasedAuthenticator};
use trusttunnel::authentication::Authenticator;
use trusttunnel::core::Core;
use trusttunnel::settings::{Http1Settings, Http2Settings, ListenProtocolSettings, QuicSettings, Settings, TlsHostInfo, TlsHostsSettings};
use trusttunnel::shutdown::Shutdown;
use trusttunnel::verif::tunnel::{VConnError, VConnect, VForwarder, VMux, VTcpMeta};
use ttv::tunnel_env::{fixture, ScriptedForwarder, SniAwareAuthenticator};

/// Dispatches forwarder calls by the client's source address
#[derive(Default)]
pub struct Router {
    by_ip: Mutex<HashMap<IpAddr, Arc<ScriptedForwarder>>>,
    /// `icmp_mux()` carries no client address: ICMP scenarios run one at a time and name their
    /// forwarder here
    icmp_current: Mutex<Option<Arc<ScriptedForwarder>>>,
    /// calls that could not be attributed (no scenario registered for the address / no ICMP scenario running)
    pub stray: Mutex<Vec<Value>>,
}

impl Router {
    pub fn register(&self, ip: IpAddr, f: Arc<ScriptedForwarder>) {
        self.by_ip.lock().unwrap().insert(ip, f);
    }

    pub fn set_icmp(&self, f: Option<Arc<ScriptedForwarder>>) {
        *self.icmp_current.lock().unwrap() = f;
    }

    fn get(&self, ip: &IpAddr) -> Option<Arc<ScriptedForwarder>> {
        self.by_ip.lock().unwrap().get(&ip.to_canonical()).cloned()
    }
}

impl VForwarder for Router {
    fn tcp_connect(&self, meta: VTcpMeta) -> VConnect {
        match self.get(&meta.client_address) {
            Some(f) => f.tcp_connect(meta),
            None => {
                self.stray.lock().unwrap().push(json!({"call": "tcp_connect", "client": meta.client_address.to_string(), "host": meta.host, "address": meta.address.map(|a| a.to_string())}));
                VConnect::Err(VConnError::Other("no scenario for this client".into()))
            }
        }
    }

    fn check_auth(&self, client: IpAddr, tls_domain: &str, auth: (String, String)) -> Result<(), VConnError> {
        match self.get(&client) {
            Some(f) => f.check_auth(client, tls_domain, auth),
            None => Ok(()),
        }
    }

    fn udp_mux(&self, client: IpAddr) -> VMux {
        match self.get(&client) {
            Some(f) => f.udp_mux(client),
            None => {
                self.stray.lock().unwrap().push(json!({"call": "udp_mux", "client": client.to_string()}));
                VMux::Err(std::io::Error::new(std::io::ErrorKind::Other, "no scenario for this client"))
            }
        }
    }

    fn icmp_mux(&self) -> VMux {
        let cur = self.icmp_current.lock().unwrap().clone();
        match cur {
            Some(f) => f.icmp_mux(),
            None => {
                self.stray.lock().unwrap().push(json!({"call": "icmp_mux"}));
                VMux::NotConfigured
            }
        }
    }
}

/// The n-th scenario's source address: 127.(1+..).y.z, never 127.0.0.x
pub fn source_ip(n: u32) -> IpAddr {
    let n = n % (120 << 16);
    IpAddr::V4(Ipv4Addr::new(127, 1 + (n >> 16) as u8, (n >> 8) as u8, n as u8))
}

pub struct EndpointOpts {
    pub clients: Vec<(String, String)>,
    pub accepted_sni: String,
    pub allow_private: bool,
    pub establishment_timeout: Duration,
    pub client_listener_timeout: Duration,
    pub tls_handshake_timeout: Duration,
    pub ping_host: Option<String>,
    pub speedtest_host: Option<String>,
    pub rules: Option<trusttunnel::rules::RulesConfig>,
    pub dual_stack: bool,
    /// reverse proxy: origin address, path mask, and the reverse-proxy host name
    pub reverse_proxy: Option<(SocketAddr, String, String)>,
    /// tcp_connections_timeout (idle timeout of tunnels); None = the default
    pub tcp_timeout: Option<Duration>,
    /// ICMP forwarding bound to this interface; None = not configured
    pub icmp_interface: Option<String>,
    /// udp_connections_timeout (idle timeout of UDP flows); None = the default
    pub udp_timeout: Option<Duration>,
}

impl Default for EndpointOpts {
    fn default() -> Self {
        Self {
            clients: vec![],
            accepted_sni: String::new(),
            allow_private: false,
            establishment_timeout: Duration::from_secs(1),
            client_listener_timeout: Duration::from_secs(60),
            tls_handshake_timeout: Duration::from_secs(10),
            ping_host: None,
            speedtest_host: None,
            rules: None,
            dual_stack: false,
            reverse_proxy: None,
            tcp_timeout: None,
            icmp_interface: None,
            udp_timeout: None,
        }
    }
}

pub struct Endpoint {
    pub port: u16,
    pub addr: SocketAddr,
    pub core: &'static Core,
    task: tokio::task::JoinHandle<std::io::Result<()>>,
}

impl Endpoint {
    pub fn stop(self) {
        self.task.abort();
    }

    /// why `Core::listen` returned (only meaningful once `is_running()` is false)
    pub fn exit_reason(self, rt: &tokio::runtime::Runtime) -> String {
        if !self.task.is_finished() {
            return "still running".into();
        }
        match rt.block_on(self.task) {
            Ok(Ok(())) => "Ok(())".into(),
            Ok(Err(e)) => format!("Err({})", e),
            Err(e) => format!("task: {}", e),
        }
    }

    pub fn is_running(&self) -> bool {
        !self.task.is_finished()
    }
}

fn host(name: &str) -> TlsHostInfo {
    let pem = fixture("localhost.pem");
    TlsHostInfo { hostname: name.to_string(), cert_chain_path: pem.clone(), private_key_path: pem, allowed_sni: vec![] }
}

/// Start a listening endpoint (TCP and QUIC on the same loopback port). Retries the port
/// allocation; panics only if no endpoint could be started at all (a tool failure).
pub fn start_endpoint(rt: &tokio::runtime::Runtime, o: &EndpointOpts) -> Endpoint {
    let mut last = String::new();
    for _attempt in 0..20 {
        let port = free_port();
        let mut b = Settings::builder()
            .listen_address(if o.dual_stack { format!("[::]:{}", port) } else { format!("127.0.0.1:{}", port) })
            .unwrap()
            .listen_protocols(ListenProtocolSettings {
                http1: Some(Http1Settings::builder().build()),
                http2: Some(Http2Settings::builder().build()),
                quic: Some(QuicSettings::builder().build()),
            })
            .allow_private_network_connections(o.allow_private)
            .connection_establishment_timeout(o.establishment_timeout)
            .client_listener_timeout(o.client_listener_timeout)
            .tls_handshake_timeout(o.tls_handshake_timeout)
            .speedtest_enable(o.speedtest_host.is_some())
            .clients(o.clients.iter().map(|(u, p)| Client { username: u.clone(), password: p.clone() }).collect());
        if let Some((origin, mask, _)) = &o.reverse_proxy {
            b = b.reverse_proxy(trusttunnel::settings::ReverseProxySettings::builder().server_address(*origin).unwrap().path_mask(mask.clone()).build().expect("reverse proxy settings"));
        }
        if let Some(t) = o.tcp_timeout {
            b = b.tcp_connections_timeout(t);
        }
        if let Some(t) = o.udp_timeout {
            b = b.udp_connections_timeout(t);
        }
        if let Some(i) = &o.icmp_interface {
            b = b.icmp(trusttunnel::settings::IcmpSettings::builder().interface_name(i).request_timeout(Duration::from_secs(3)).build().expect("icmp settings"));
        }
        if let Some(r) = &o.rules {
            b = b.rules_engine(trusttunnel::rules::RulesEngine::from_config(r.clone()));
        }
        let settings = b.build().expect("settings");
        let mut hb = TlsHostsSettings::builder().main_hosts(vec![host("localhost")]);
        if let Some(p) = &o.ping_host {
            hb = hb.ping_hosts(vec![host(p)]);
        }
        if let Some(s) = &o.speedtest_host {
            hb = hb.speedtest_hosts(vec![host(s)]);
        }
        if let Some((_, _, h)) = &o.reverse_proxy {
            hb = hb.reverse_proxy_hosts(vec![host(h)]);
        }
        let hosts = hb.build().expect("hosts");
        let authenticator: Option<Arc<dyn Authenticator>> = if o.clients.is_empty() {
            None
        } else {
            Some(Arc::new(SniAwareAuthenticator { registry: RegistryBasedAuthenticator::new(settings.get_clients()), accepted_sni: o.accepted_sni.clone() }))
        };
        let core: &'static Core = Box::leak(Box::new(Core::new(settings, authenticator, hosts, Shutdown::new()).expect("core")));
        let task = rt.spawn(async move { core.listen().await });
        // ready when the TCP side accepts (both listeners are bound by the same future's first poll)
        let mut up = false;
        for _ in 0..250 {
            if task.is_finished() {
                break;
            }
            if std::net::TcpStream::connect(("127.0.0.1", port)).is_ok() {
                up = true;
                break;
            }
            std::thread::sleep(Duration::from_millis(20));
        }
        if up {
            std::thread::sleep(Duration::from_millis(30));
            if !task.is_finished() {
                return Endpoint { port, addr: SocketAddr::from(([127, 0, 0, 1], port)), core, task };
            }
        }
        last = format!("endpoint on port {} did not come up", port);
        task.abort();
    }
    panic!("could not start an endpoint: {}", last);
}

/// A UDP and TCP port that is free right now on 127.0.0.1
pub fn free_port() -> u16 {
    for _ in 0..50 {
        let Ok(u) = std::net::UdpSocket::bind("127.0.0.1:0") else { continue };
        let p = u.local_addr().unwrap().port();
        if std::net::TcpListener::bind(("127.0.0.1", p)).is_ok() {
            return p;
        }
    }
    panic!("no free port");
}

struct StderrLog;
impl log::Log for StderrLog {
    fn enabled(&self, _: &log::Metadata) -> bool {
        true
    }
    fn log(&self, r: &log::Record) {
        if r.level() <= log::Level::Debug || !r.target().starts_with("quiche") || std::env::var("VERIF_DEBUG").map(|v| v == "2").unwrap_or(false) {
            eprintln!("[{:?}] {} {} {}", std::time::SystemTime::now().duration_since(std::time::UNIX_EPOCH).unwrap().as_millis() % 100000, r.level(), r.target(), r.args());
        }
    }
    fn flush(&self) {}
}

/// VERIF_DEBUG=1: print the endpoint's log to stderr instead of capturing it (development only)
pub fn install_logger() {
    if std::env::var("VERIF_DEBUG").is_ok() {
        let _ = log::set_boxed_logger(Box::new(StderrLog));
        log::set_max_level(log::LevelFilter::Trace);
    } else {
        ttv::logcap::install();
    }
}
