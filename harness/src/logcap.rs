//! Capturing logger: every record (all levels, all targets) is formatted and searched
//! for the canaries the scenario planted in secret-bearing fields (C20).

use serde_json::{json, Value};
use std::sync::atomic::{AtomicU64, Ordering};
use std::sync::{Mutex, Once};

pub struct Canary {
    /// which secret-bearing field this is (e.g. "proxy-authorization", "sni-creds")
    pub tag: String,
    /// the strings whose appearance in a log line is a leak
    pub needles: Vec<String>,
}

struct Leak {
    tag: String,
    needle: String,
    target: String,
    level: String,
    line: String,
    scenario: String,
}

static CANARIES: Mutex<Vec<Canary>> = Mutex::new(Vec::new());
static LEAKS: Mutex<Vec<Leak>> = Mutex::new(Vec::new());
static SCENARIO: Mutex<String> = Mutex::new(String::new());
static RECORDS: AtomicU64 = AtomicU64::new(0);
static INIT: Once = Once::new();

struct Cap;

impl log::Log for Cap {
    fn enabled(&self, _: &log::Metadata) -> bool {
        true
    }

    fn log(&self, record: &log::Record) {
        RECORDS.fetch_add(1, Ordering::Relaxed);
        if std::env::var_os("VERIF_LOG_STDERR").is_some() && record.target().starts_with("trusttunnel") {
            eprintln!("[{} {}] {}", record.level(), record.target(), record.args());
        }
        let cs = CANARIES.lock().unwrap_or_else(|e| e.into_inner());
        if cs.is_empty() {
            return;
        }
        let line = format!("{}", record.args());
        for c in cs.iter() {
            for n in &c.needles {
                if !n.is_empty() && line.contains(n.as_str()) {
                    let mut l = LEAKS.lock().unwrap_or_else(|e| e.into_inner());
                    if l.len() < 10_000 {
                        l.push(Leak {
                            tag: c.tag.clone(),
                            needle: n.clone(),
                            target: record.target().to_string(),
                            level: record.level().to_string(),
                            line: line.chars().take(400).collect(),
                            scenario: SCENARIO.lock().unwrap_or_else(|e| e.into_inner()).clone(),
                        });
                    }
                }
            }
        }
    }

    fn flush(&self) {}
}

/// Install the capturing logger at trace level (idempotent)
pub fn install() {
    INIT.call_once(|| {
        let _ = log::set_boxed_logger(Box::new(Cap));
        log::set_max_level(log::LevelFilter::Trace);
    });
}

/// Register a secret. `value` is searched verbatim, in base64 form and — when it is
/// base64 itself — in decoded form, plus each `extra` half (user / password).
pub fn plant(tag: &str, value: &str, extra: &[&str]) {
    use base64::Engine;
    let mut needles = vec![value.to_string()];
    needles.push(base64::engine::general_purpose::STANDARD.encode(value.as_bytes()));
    if let Ok(dec) = base64::engine::general_purpose::STANDARD.decode(value.as_bytes()) {
        if let Ok(s) = String::from_utf8(dec) {
            if s.len() >= 6 {
                needles.push(s);
            }
        }
    }
    for e in extra {
        if e.len() >= 6 {
            needles.push(e.to_string());
        }
    }
    needles.retain(|n| n.len() >= 6);
    needles.dedup();
    CANARIES
        .lock()
        .unwrap_or_else(|e| e.into_inner())
        .push(Canary {
            tag: tag.to_string(),
            needles,
        });
}

pub fn clear_canaries() {
    CANARIES.lock().unwrap_or_else(|e| e.into_inner()).clear();
}

pub fn set_scenario(s: &str) {
    *SCENARIO.lock().unwrap_or_else(|e| e.into_inner()) = s.to_string();
}

pub fn records_seen() -> u64 {
    RECORDS.load(Ordering::Relaxed)
}

pub fn leaks_json() -> Value {
    let l = LEAKS.lock().unwrap_or_else(|e| e.into_inner());
    // aggregate by (tag, target, first 60 chars of the line with the needle masked)
    let mut agg: std::collections::BTreeMap<(String, String, String), (u64, Value)> =
        Default::default();
    for x in l.iter() {
        let masked = x.line.replace(&x.needle, "<CANARY>");
        // the statement is identified by its static text: keep letters/punctuation up to the first canary
        let key_line: String = masked.chars().take(80).collect();
        let k = (x.tag.clone(), x.target.clone(), key_line);
        let e = agg.entry(k).or_insert((
            0,
            json!({"tag": x.tag, "target": x.target, "level": x.level, "line": masked, "scenario": x.scenario}),
        ));
        e.0 += 1;
    }
    Value::Array(
        agg.into_iter()
            .map(|(_, (n, mut v))| {
                v["count"] = json!(n);
                v
            })
            .collect(),
    )
}
