//! C07, SOCKS5 upstream (included by src/bin/c07.rs). The real `udp_pipe::DuplexPipe` over the
//! real SOCKS5 datagram transceiver (`Upstream::Socks5`) against an in-process SOCKS5 server
//! (UDP ASSOCIATE only, one thread) and a UDP relay owned by the harness. The relay *is* the
//! peers: a datagram the multiplexer sends arrives at the relay encapsulated with its destination,
//! a reply is sent by the relay to the association socket encapsulated with the peer's address.
//! Same driving discipline as the direct upstream (hand-polled future, paused clock, yields for
//! the I/O driver); the trace is validated against UdpMuxSocks.tla (UdpMuxSocksTrace.tla).
//!
//! Flow table (the same as spec/MCUdpMuxSocks.tla): all flows of one client source share one
//! association.
//!   1: a -> P1    2: a -> P2    3: a -> D (port 53)    4: b -> P1

use super::*;
use std::io::Read;
use std::net::TcpListener;
use std::sync::atomic::AtomicBool;

pub const S_FLOWS: [(&str, &str); 4] = [("a", "P1"), ("a", "P2"), ("a", "D"), ("b", "P1")];

pub struct SNet {
    socks_addr: SocketAddr,
    relay_addr: SocketAddr,
    relay: Option<UdpSocket>,
    refuse: Arc<AtomicBool>,
    /// "slow" mode: the server accepts the TCP connection and reads the UDP ASSOCIATE request but
    /// holds its reply until released
    hold: Arc<AtomicBool>,
    names: Vec<(String, &'static str)>,
    addrs: HashMap<&'static str, SocketAddr>,
    /// association socket address -> client source the relay attributes it to
    src_of: HashMap<SocketAddr, String>,
    addr_of: HashMap<String, SocketAddr>,
    rx: u64,
}

impl SNet {
    pub fn new() -> SNet {
        let pid = std::process::id();
        let ip = [127, 64 + (pid % 150) as u8, ((pid / 150) % 250) as u8 + 1, 10];
        let listener = TcpListener::bind(SocketAddr::from((ip, 0))).expect("socks listener");
        let socks_addr = listener.local_addr().unwrap();
        let relay = UdpSocket::bind(SocketAddr::from((ip, 0))).expect("relay");
        relay.set_nonblocking(true).unwrap();
        let relay_addr = relay.local_addr().unwrap();
        let refuse = Arc::new(AtomicBool::new(false));
        let refuse2 = refuse.clone();
        let hold = Arc::new(AtomicBool::new(false));
        let hold2 = hold.clone();
        std::thread::spawn(move || {
            let mut keep: Vec<std::net::TcpStream> = Vec::new();
            for c in listener.incoming() {
                // forget the control connections the client has closed
                keep.retain(|s| {
                    let mut b = [0u8; 1];
                    let _ = s.set_nonblocking(true);
                    !matches!(s.peek(&mut b), Ok(0))
                });
                let Ok(mut c) = c else { continue };
                let _ = c.set_read_timeout(Some(Duration::from_secs(2)));
                let mut b = [0u8; 2];
                if c.read_exact(&mut b).is_err() {
                    continue;
                }
                let mut m = vec![0u8; b[1] as usize];
                let _ = c.read_exact(&mut m);
                let _ = c.write_all(&[5, 0]);
                let mut r = [0u8; 10];
                if c.read_exact(&mut r).is_err() {
                    continue;
                }
                let t_hold = Instant::now();
                while hold2.load(Ordering::SeqCst) && t_hold.elapsed() < Duration::from_secs(20) {
                    std::thread::sleep(Duration::from_micros(100));
                }
                if refuse2.load(Ordering::SeqCst) {
                    let _ = c.write_all(&[5, 1, 0, 1, 0, 0, 0, 0, 0, 0]); // general failure
                    continue;
                }
                let mut reply = vec![5u8, 0, 0, 1];
                if let SocketAddr::V4(a) = relay_addr {
                    reply.extend_from_slice(&a.ip().octets());
                    reply.extend_from_slice(&a.port().to_be_bytes());
                }
                let _ = c.write_all(&reply);
                keep.push(c); // the association lives as long as its TCP connection
            }
        });
        let mut addrs: HashMap<&'static str, SocketAddr> = HashMap::new();
        addrs.insert("a", "10.9.8.7:4321".parse().unwrap());
        addrs.insert("b", "10.9.8.8:4322".parse().unwrap());
        addrs.insert("P1", "192.0.2.1:1000".parse().unwrap());
        // (P2 is written as an IPv4-mapped IPv6 address: a destination like any other, and the label of its replies)
        addrs.insert("P2", "[::ffff:192.0.2.2]:2000".parse().unwrap());
        addrs.insert("D", "192.0.2.53:53".parse().unwrap());
        let names = ["a", "b", "P1", "P2", "D"].iter().map(|n| (format!("\"{}\"", addrs[n]), quoted(n))).collect();
        SNet { socks_addr, relay_addr, relay: Some(relay), refuse, hold, names, addrs, src_of: HashMap::new(), addr_of: HashMap::new(), rx: 0 }
    }

    fn rewrite(&self, line: String) -> String {
        let mut l = line;
        for (a, n) in &self.names {
            if l.contains(a.as_str()) {
                l = l.replace(a.as_str(), n);
            }
        }
        l
    }

    fn name_of(&self, a: &SocketAddr) -> &'static str {
        self.addrs.iter().find(|(_, v)| *v == a).map(|(k, _)| *k).unwrap_or("?")
    }

    fn up(&self) -> bool {
        self.relay.is_some()
    }

    fn set_up(&mut self) {
        if self.relay.is_none() {
            let t0 = Instant::now();
            loop {
                match UdpSocket::bind(self.relay_addr) {
                    Ok(s) => {
                        s.set_nonblocking(true).unwrap();
                        self.relay = Some(s);
                        return;
                    }
                    Err(e) if t0.elapsed() > Duration::from_secs(5) => panic!("rebind relay: {}", e),
                    Err(_) => std::thread::sleep(Duration::from_millis(1)),
                }
            }
        }
    }

    /// Receive everything waiting at the relay; one PeerGot line per datagram
    fn drain(&mut self, short: &mut VecDeque<Short>) {
        let Some(r) = &self.relay else { return };
        let mut buf = vec![0u8; 65536];
        while let Ok((n, from)) = r.recv_from(&mut buf) {
            if n < 10 || !(buf[3] == 1 || (buf[3] == 4 && n >= 22)) {
                continue;
            }
            let (dst, hl) = if buf[3] == 1 {
                (SocketAddr::from(([buf[4], buf[5], buf[6], buf[7]], u16::from_be_bytes([buf[8], buf[9]]))), 10)
            } else {
                let mut a = [0u8; 16];
                a.copy_from_slice(&buf[4..20]);
                (SocketAddr::from((a, u16::from_be_bytes([buf[20], buf[21]]))), 22)
            };
            let body = &buf[hl..n];
            let (f, id) = identify(body, short);
            let src = if (1..=S_FLOWS.len()).contains(&f) { S_FLOWS[f - 1].0 } else { "?" };
            let via = self.src_of.entry(from).or_insert_with(|| src.to_string()).clone();
            self.addr_of.insert(via.clone(), from);
            self.rx += 1;
            let a = self.name_of(&dst);
            ev("PeerGot", format!("\"a\":\"{}\",\"f\":{},\"id\":{},\"n\":{},\"via\":\"{}\"", a, f, id, body.len(), via));
        }
    }

    /// the largest payload a datagram to / from this peer may have behind its RFC 1928 header (10 octets IPv4, 22 IPv6)
    fn max_for(&self, peer: &str) -> usize {
        if self.addrs[peer].is_ipv6() { MAX_SOCKS - 12 } else { MAX_SOCKS }
    }

    fn forget(&mut self, src: &str) {
        self.addr_of.remove(src);
        self.src_of.retain(|_, v| v != src);
    }
}

fn quoted(n: &str) -> &'static str {
    match n {
        "a" => "\"a\"",
        "b" => "\"b\"",
        "P1" => "\"P1\"",
        "P2" => "\"P2\"",
        "D" => "\"D\"",
        _ => "\"?\"",
    }
}

struct SRun<'a> {
    net: &'a mut SNet,
    world: Shared,
    fut: Option<PipeFut>,
    result: Option<io::Result<()>>,
    gauge: Gauge,
    met: Arc<(AtomicU64, AtomicU64)>,
    lines: Vec<String>,
    live: HashSet<String>, // client sources with an association, as the hooks report
    /// the left pipe is inside on_new_udp_connection (between AssocOpenStart and AssocOpen)
    opening: bool,
    expect_rx: u64,
    client_got: HashSet<u64>,
    tick_seen: bool,
    next_id: u64,
    skipped: u64,
    /// replies that were not read while virtual time stood still (see `settle`)
    delayed: u64,
    problems: Vec<(String, String)>,
    injected: VecDeque<Short>,
    cur: Option<Short>,
    /// empty / one-octet datagrams that were sent (their byte counter line was seen) and the relay has not read yet
    sent_short: VecDeque<Short>,
}

impl<'a> SRun<'a> {
    fn pump(&mut self) -> usize {
        let new = verif::drain_events();
        let n = new.len();
        for l in new {
            let l = self.net.rewrite(l);
            if let Ok(v) = serde_json::from_str::<Value>(&l) {
                match field(&v, "ev") {
                    "AssocOpenStart" => self.opening = true,
                    "AssocOpen" => {
                        if self.opening && v["ok"] == false && self.net.hold.load(Ordering::SeqCst) {
                            // the held handshake was dropped by the expiry tick
                            super::CANCELLED.fetch_add(1, Ordering::SeqCst);
                        }
                        self.opening = false;
                        if v["ok"] == true {
                            self.live.insert(field(&v, "s").to_string());
                        }
                    }
                    "AssocRelease" | "AssocError" => {
                        let src = field(&v, "src").to_string();
                        // replies still waiting in the association socket are gone with it
                        if let Some(cs) = self.net.addrs.get(src.as_str()).copied() {
                            self.world.lock().unwrap().replies.retain(|r| r.1 != cs);
                        }
                        self.live.remove(&src);
                        self.net.forget(&src);
                    }
                    // the byte counter line follows a datagram that was really sent
                    "FlowLookup" => self.cur = self.injected.pop_front(),
                    "Metric" if field(&v, "dir") == "out" => {
                        if self.net.up() {
                            self.expect_rx += 1;
                            if let Some(c) = self.cur {
                                if c.2 < 4 {
                                    self.sent_short.push_back(c);
                                }
                            }
                        }
                    }
                    "ClientGot" => {
                        self.client_got.insert(v["id"].as_u64().unwrap_or(0));
                    }
                    "Tick" => self.tick_seen = true,
                    _ => {}
                }
            }
            self.lines.push(l);
        }
        n
    }

    fn poll_pipe(&mut self) {
        if let Some(f) = self.fut.as_mut() {
            let waker = futures::task::noop_waker();
            let mut cx = Context::from_waker(&waker);
            if let Poll::Ready(r) = f.as_mut().poll(&mut cx) {
                self.result = Some(r);
                self.fut = None;
            }
        }
    }

    async fn settle(&mut self, want_client: Option<(u64, String)>) {
        let t0 = Instant::now();
        let mut idle = 0;
        let mut iters = 0u64;
        loop {
            iters += 1;
            self.poll_pipe();
            tokio::task::yield_now().await;
            let n0 = self.pump();
            self.net.drain(&mut self.sent_short);
            let n = n0 + self.pump();
            let held = self.opening && self.net.hold.load(Ordering::SeqCst);
            let left_busy = self.fut.is_some() && !held && {
                let g = self.world.lock().unwrap();
                !g.inq.is_empty() || !g.src_waiting
            };
            let rx_pending = self.net.up() && self.expect_rx > self.net.rx;
            // A relayed reply is waited for only briefly: DatagramSource::read parks in
            // recv_from() of the association it served last, so a reply on ANOTHER association is
            // not read before the next expiry tick restarts the reader (virtual time stands still
            // here). The specification lets a reply wait in the socket; it is delivered later.
            let mut client_pending = match &want_client {
                Some((id, src)) => self.fut.is_some() && !self.client_got.contains(id) && self.live.contains(src),
                None => false,
            };
            if client_pending && t0.elapsed() > Duration::from_millis(15) {
                client_pending = false;
                if idle == 1 {
                    self.delayed += 1;
                }
            }
            if n == 0 && !left_busy && !rx_pending && !client_pending {
                idle += 1;
                if idle >= 2 {
                    break;
                }
            } else {
                idle = 0;
            }
            if t0.elapsed() > Duration::from_secs(5) {
                let what = if left_busy {
                    "the pipe did not take/finish a client datagram"
                } else if rx_pending {
                    "a datagram counted as sent did not reach the relay"
                } else if client_pending {
                    "a reply relayed to a live association was not delivered to the client"
                } else {
                    "events keep coming"
                };
                self.problems.push(("c07:socks5:stuck".into(), what.into()));
                break;
            }
            if left_busy || iters > 20 {
                // the SOCKS5 handshake is answered by a real thread
                std::thread::sleep(Duration::from_micros(100));
            }
        }
    }

    fn obs(&mut self) {
        let cb = self.world.lock().unwrap().client_bytes;
        ev("Obs", format!("\"gauge\":{},\"alive\":{},\"mo\":{},\"mi\":{},\"cb\":{}", self.gauge.outbound_udp_sockets(), self.fut.is_some(),
            self.met.0.load(Ordering::SeqCst), self.met.1.load(Ordering::SeqCst), cb));
        self.pump();
    }

    fn inject(&mut self, f: usize) {
        let (s, d) = S_FLOWS[f - 1];
        let id = self.next_id;
        self.next_id += 1;
        let body = payload_sized('q', f, id, self.net.max_for(d));
        ev("ClientDgram", format!("\"f\":{},\"id\":{},\"n\":{}", f, id, body.len()));
        self.injected.push_back((f, id, body.len()));
        self.world.lock().unwrap().inq.push_back(VDatagram { source: self.net.addrs[s], destination: self.net.addrs[d], payload: body });
    }

    async fn apply(&mut self, op: &Op) {
        if self.fut.is_none() || !self.problems.is_empty() {
            return;
        }
        match op {
            Op::D(f) => {
                self.inject(*f);
                self.settle(None).await;
            }
            Op::B(f, g) => {
                self.inject(*f);
                self.inject(*g);
                self.settle(None).await;
            }
            Op::R(f) => {
                let (sn, dn) = S_FLOWS[*f - 1];
                match (self.live.contains(sn), self.net.addr_of.get(sn).copied(), self.net.up()) {
                    (true, Some(to), true) => {
                        let id = self.next_id;
                        self.next_id += 1;
                        let body = payload_sized('r', *f, id, self.net.max_for(dn));
                        ev("PeerReply", format!("\"f\":{},\"id\":{},\"n\":{}", f, id, body.len()));
                        self.world.lock().unwrap().replies.push((self.net.addrs[dn], self.net.addrs[sn], (*f, id, body.len())));
                        let mut pkt = vec![0u8, 0, 0];
                        match self.net.addrs[dn] {
                            SocketAddr::V4(x) => { pkt.push(1); pkt.extend_from_slice(&x.ip().octets()); pkt.extend_from_slice(&x.port().to_be_bytes()); }
                            SocketAddr::V6(x) => { pkt.push(4); pkt.extend_from_slice(&x.ip().octets()); pkt.extend_from_slice(&x.port().to_be_bytes()); }
                        }
                        pkt.extend_from_slice(&body);
                        let _ = self.net.relay.as_ref().unwrap().send_to(&pkt, to);
                        self.settle(Some((id, sn.to_string()))).await;
                    }
                    _ => {
                        self.skipped += 1;
                        return;
                    }
                }
            }
            Op::Tick => {
                self.tick_seen = false;
                for _ in 0..(3 * P_MS) {
                    ev("Adv", "\"d\":1".into());
                    tokio::time::advance(Duration::from_millis(1)).await;
                    self.poll_pipe();
                    self.pump();
                    if self.tick_seen || self.fut.is_none() {
                        break;
                    }
                }
                if !self.tick_seen && self.fut.is_some() {
                    self.problems.push(("c07:socks5:no-tick".into(), "the expiry timer did not fire".into()));
                }
                self.settle(None).await;
            }
            Op::Down(_) => {
                if !self.net.up() {
                    self.skipped += 1;
                    return;
                }
                self.net.drain(&mut self.sent_short);
                self.sent_short.clear();
                self.net.relay = None;
                ev("Down", String::new());
                self.settle(None).await;
            }
            Op::Up(_) => {
                if self.net.up() {
                    self.skipped += 1;
                    return;
                }
                self.net.set_up();
                ev("Up", String::new());
                self.settle(None).await;
            }
            Op::Refuse | Op::Accept => {
                let want = matches!(op, Op::Refuse);
                if self.net.refuse.load(Ordering::SeqCst) == want {
                    self.skipped += 1;
                    return;
                }
                self.net.refuse.store(want, Ordering::SeqCst);
                ev(if want { "Refuse" } else { "Accept" }, String::new());
                self.settle(None).await;
            }
            Op::Fault(f) => {
                let (sn, _dn) = S_FLOWS[*f - 1];
                match (self.live.contains(sn), self.net.addr_of.get(sn).copied(), self.net.up()) {
                    (true, Some(assoc_socket), true) if icmp_available() => {
                        ev("Fault", format!("\"f\":{},\"code\":13", f));
                        if let Err(e) = send_icmp_unreachable(13, assoc_socket, self.net.relay_addr) {
                            self.problems.push(("c07:raw-socket".into(), format!("forging the ICMP error failed: {}", e)));
                        }
                        std::thread::sleep(Duration::from_micros(300));
                        self.settle(None).await;
                    }
                    _ => {
                        self.skipped += 1;
                        return;
                    }
                }
            }
            Op::Hold | Op::Release => {
                let want = matches!(op, Op::Hold);
                if self.net.hold.load(Ordering::SeqCst) == want {
                    self.skipped += 1;
                    return;
                }
                self.net.hold.store(want, Ordering::SeqCst);
                ev(if want { "Hold" } else { "Release" }, String::new());
                if !want {
                    // the server thread answers (or finds the connection gone) in real time
                    std::thread::sleep(Duration::from_millis(1));
                }
                self.settle(None).await;
            }
            Op::Stall | Op::Resume => {
                let want = matches!(op, Op::Stall);
                if self.world.lock().unwrap().stalled == want {
                    self.skipped += 1;
                    return;
                }
                self.world.lock().unwrap().stalled = want;
                ev(if want { "Stall" } else { "Resume" }, String::new());
                self.settle(None).await;
            }
        }
        if self.fut.is_some() && !(self.opening && self.net.hold.load(Ordering::SeqCst)) {
            self.obs();
        }
    }
}

/// One life of the real multiplexer over the SOCKS5 upstream through `ops`
pub async fn run_one(net: &mut SNet, ops: &[Op]) -> Outcome {
    net.set_up();
    net.drain(&mut VecDeque::new());
    net.refuse.store(false, Ordering::SeqCst);
    net.hold.store(false, Ordering::SeqCst);
    net.src_of.clear();
    net.addr_of.clear();
    net.rx = 0;
    let world: Shared = Arc::new(Mutex::new(World::default()));
    verif::start_recording();
    ev("Start", format!("\"T\":{},\"P\":{}", T_MS, P_MS));
    let met: Arc<(AtomicU64, AtomicU64)> = Arc::new((AtomicU64::new(0), AtomicU64::new(0)));
    let m2 = met.clone();
    let mux = UdpMux::new(
        Upstream::Socks5(net.socks_addr),
        Box::new(Src(world.clone())),
        Box::new(Snk(world.clone())),
        Duration::from_millis(T_MS),
        move |out, n| {
            ev("Metric", format!("\"dir\":\"{}\",\"n\":{}", if out { "out" } else { "in" }, n));
            if out { &m2.0 } else { &m2.1 }.fetch_add(n as u64, Ordering::SeqCst);
        },
    )
    .expect("socks5 udp mux");
    let gauge = mux.gauge();
    let mut mux = mux;
    let fut: PipeFut = Box::pin(async move { mux.exchange().await });
    let mut run = SRun {
        net,
        world,
        fut: Some(fut),
        result: None,
        gauge,
        met,
        lines: Vec::new(),
        live: HashSet::new(),
        opening: false,
        expect_rx: 0,
        client_got: HashSet::new(),
        tick_seen: false,
        next_id: 1,
        skipped: 0,
        delayed: 0,
        problems: Vec::new(),
        injected: VecDeque::new(),
        cur: None,
        sent_short: VecDeque::new(),
    };
    run.settle(None).await;
    run.obs();
    let mut early = None;
    for op in ops {
        run.apply(op).await;
        if run.fut.is_none() {
            break;
        }
    }
    if run.fut.is_some() && run.net.hold.load(Ordering::SeqCst) {
        run.apply(&Op::Release).await;
    }
    if run.fut.is_some() {
        ev("Close", String::new());
        run.world.lock().unwrap().closed = true;
        run.settle(None).await;
        match &run.result {
            Some(_) => ev("Ret", "\"closed\":true".into()),
            None => {
                run.problems.push(("c07:socks5:no-return".into(), "exchange() did not return after the client closed the stream".into()));
                ev("Abandon", String::new());
                run.fut = None;
            }
        }
    } else {
        let kind = match &run.result {
            Some(Err(e)) => format!("{:?}", e.kind()),
            Some(Ok(())) => "Ok".to_string(),
            None => "?".to_string(),
        };
        early = Some(kind.clone());
        ev("Ret", format!("\"closed\":false,\"kind\":\"{}\"", kind));
    }
    tokio::task::yield_now().await;
    run.obs();
    run.pump();
    let lines = std::mem::take(&mut run.lines);
    let problems = std::mem::take(&mut run.problems);
    let skipped = run.skipped;
    if run.delayed > 0 {
        super::DELAYED.fetch_add(run.delayed, Ordering::SeqCst);
    }
    drop(run);
    verif::stop_recording();
    Outcome { lines: merge_adv(lines), problems, skipped, early_return: early }
}

/// Directed histories that are always run first: the SOCKS5 handshake of a fresh association is
/// held while the expiry tick fires (the tick drops the left pipe inside on_new_udp_connection),
/// then released, then the same pair is used again
pub fn directed() -> Vec<Vec<Op>> {
    vec![
        vec![Op::Hold, Op::D(1), Op::Tick, Op::Release, Op::D(1), Op::R(1), Op::D(2)],
        vec![Op::D(4), Op::Hold, Op::B(3, 1), Op::Tick, Op::Tick, Op::Release, Op::D(3), Op::R(3), Op::D(1), Op::R(4)],
        vec![Op::Hold, Op::D(2), Op::Release, Op::D(2), Op::Tick, Op::Hold, Op::D(4), Op::Tick, Op::Release, Op::D(4), Op::D(2)],
    ]
}

pub fn random_ops(rng: &mut StdRng) -> Vec<Op> {
    let n = rng.gen_range(3..24);
    let mut ops = Vec::new();
    // flows 1..3 share the source a: most of the traffic is there
    let flow = |rng: &mut StdRng| if rng.gen_range(0..5) > 0 { rng.gen_range(1..=3) } else { 4 };
    while ops.len() < n {
        match rng.gen_range(0..28) {
            0..=6 => ops.push(Op::D(flow(rng))),
            7..=8 => {
                let f = flow(rng);
                let g = if rng.gen() { f } else { flow(rng) };
                ops.push(Op::B(f, g));
            }
            9..=12 => ops.push(Op::R(flow(rng))),
            13..=16 => {
                let k = if rng.gen_range(0..3) == 0 { rng.gen_range(4..7) } else { rng.gen_range(1..3) };
                for _ in 0..k {
                    ops.push(Op::Tick);
                }
            }
            17 => ops.push(if rng.gen() { Op::Down("relay") } else { Op::Up("relay") }),
            18 => ops.push(if rng.gen() { Op::Refuse } else { Op::Accept }),
            19 => ops.push(if rng.gen() { Op::Stall } else { Op::Resume }),
            20 => {
                // one flow expires while a sibling of the same source lives on, then the sibling is used
                let f = rng.gen_range(1..=3);
                let g = 1 + (f % 3);
                ops.push(Op::D(f));
                for _ in 0..rng.gen_range(1..4) {
                    ops.push(Op::Tick);
                }
                ops.push(Op::D(g));
                for _ in 0..rng.gen_range(2..5) {
                    ops.push(Op::Tick);
                }
                ops.push(Op::D(g));
                ops.push(Op::R(g));
            }
            21 => {
                // the plain-DNS flow completes while siblings live (or alone)
                if rng.gen() {
                    ops.push(Op::D(rng.gen_range(1..=2)));
                }
                if rng.gen_range(0..3) == 0 {
                    ops.push(Op::D(rng.gen_range(1..=2)));
                }
                let k = rng.gen_range(1..3);
                for _ in 0..k {
                    ops.push(Op::D(3));
                }
                for _ in 0..k {
                    ops.push(Op::R(3));
                }
                let f = rng.gen_range(1..=3);
                ops.push(Op::D(f));
                ops.push(Op::R(f));
            }
            22 => {
                // the relay's port closes, an error waits in the association socket, the relay
                // comes back and relays a reply: the whole association of that source ends
                let f = flow(rng);
                ops.push(Op::D(f));
                if rng.gen() {
                    ops.push(Op::D(flow(rng)));
                }
                ops.push(Op::Down("relay"));
                ops.push(Op::D(f));
                ops.push(Op::Up("relay"));
                ops.push(Op::R(f));
                ops.push(Op::D(f));
            }
            26 => {
                // an ICMP "administratively prohibited" about the association's datagrams: met by the
                // next send on that association, or by the reader when the relay forwards a reply first
                let f = flow(rng);
                ops.push(Op::D(f));
                ops.push(Op::Fault(f));
                if rng.gen() {
                    ops.push(Op::D(f));
                } else {
                    ops.push(Op::R(f));
                }
                ops.push(Op::D(f));
                ops.push(Op::R(f));
                ops.push(Op::D(4));
            }
            24 => {
                // the handshake of a fresh association is held across one or more expiry ticks
                let f = flow(rng);
                ops.push(Op::Hold);
                ops.push(Op::D(f));
                for _ in 0..rng.gen_range(0..3) {
                    ops.push(Op::Tick);
                }
                ops.push(Op::Release);
                ops.push(Op::D(f));
                ops.push(Op::R(f));
            }
            23 => {
                ops.push(Op::Refuse);
                ops.push(Op::D(flow(rng)));
                ops.push(Op::Accept);
                ops.push(Op::D(flow(rng)));
            }
            _ => ops.push(Op::D(flow(rng))),
        }
    }
    ops
}
