//! A small blocking QUIC + HTTP/3 client (quiche) for the harness binaries that drive the real
//! `quic_multiplexer.rs` / `http3_codec.rs` path of a listening `Core` over loopback UDP.
//! Included with `#[path = "../h3client.rs"] mod h3client;` by the binaries that need it.
//!
//! Nothing here asserts a latency: every wait has a generous budget and the caller only looks at
//! order / eventual facts (which heads arrived on a stream, whether it was finished or reset,
//! whether the connection was closed and by whom).

#![allow(dead_code)]

use quiche::h3;
use quiche::h3::NameValue;
use std::collections::BTreeMap;
use std::io::ErrorKind;
use std::net::{IpAddr, SocketAddr, UdpSocket};
use std::time::{Duration, Instant};

const MAX_DGRAM: usize = 1350;

/// What was seen on one request stream
#[derive(Debug, Clone, Default)]
pub struct StreamObs {
    /// every HEADERS frame received on the stream, in order (a second one is an extra response / trailers)
    pub heads: Vec<Vec<(String, Vec<u8>)>>,
    /// body bytes (the first `H3Conn::body_keep` of them)
    pub body: Vec<u8>,
    /// number of body bytes received
    pub body_len: u64,
    /// the peer finished its side cleanly
    pub finished: bool,
    /// the peer reset the stream (error code)
    pub reset: Option<u64>,
}

impl StreamObs {
    pub fn status(&self, i: usize) -> u16 {
        self.heads
            .get(i)
            .and_then(|h| h.iter().find(|(n, _)| n == ":status"))
            .and_then(|(_, v)| std::str::from_utf8(v).ok())
            .and_then(|s| s.parse().ok())
            .unwrap_or(0)
    }

    pub fn ended(&self) -> bool {
        self.finished || self.reset.is_some()
    }
}

#[derive(Debug, Clone)]
pub enum ConnectError {
    Io(String),
    /// the handshake did not complete within the budget (nothing, or not enough, came back)
    Timeout,
    /// the connection was closed during the handshake (peer CONNECTION_CLOSE / TLS alert / local error)
    Closed(String),
}

pub struct H3Conn {
    sock: UdpSocket,
    local: SocketAddr,
    peer: SocketAddr,
    pub conn: quiche::Connection,
    h3: Option<h3::Connection>,
    pub streams: BTreeMap<u64, StreamObs>,
    pub goaway: bool,
    /// how many body bytes per stream are kept (all are counted)
    pub body_keep: usize,
    /// datagrams received from the server after the handshake completed
    pub rx_after_handshake: u64,
    /// fault injection: datagrams arriving before this instant are lost (read from the socket and thrown away)
    pub deaf_until: Option<Instant>,
    /// ... but at most this many in total (quiche 0.24 encodes packet numbers too short once 128 or more
    /// consecutive packets are unacknowledged: longer bursts would test that third-party defect instead)
    pub max_dropped: u64,
    pub dropped: u64,
    /// stream bytes / frames the server sent after the handshake (from quiche's statistics)
    io_error: Option<String>,
    /// every burst of datagrams carrying an Initial packet this client sent: (the packets carry a retry token, datagrams)
    pub initial_flights: Vec<(bool, usize)>,
    /// send the datagrams of every burst of the handshake in reverse order (the tail of the ClientHello arrives first)
    reverse_handshake_flights: bool,
    /// request streams whose body `drain_events` leaves in the transport's receive buffer: the driver decides when
    /// the application reads them (`read_body`), i.e. when their flow-control credit returns to the endpoint
    pub hold: std::collections::BTreeSet<u64>,
}

pub struct ClientOpts<'a> {
    pub src_ip: IpAddr,
    pub sni: Option<&'a str>,
    pub alpn: &'a [&'a [u8]],
    pub handshake_budget: Duration,
    pub idle_timeout_ms: u64,
    /// the datagrams of each burst sent before the handshake completes leave in reverse order
    pub reverse_handshake_flights: bool,
    /// fixed flow-control windows of the client (connection, request stream) in octets; None = the roomy defaults
    pub windows: Option<(u64, u64)>,
}

impl Default for ClientOpts<'_> {
    fn default() -> Self {
        Self {
            src_ip: IpAddr::from([127, 0, 0, 1]),
            sni: Some("localhost"),
            alpn: h3::APPLICATION_PROTOCOL,
            handshake_budget: Duration::from_secs(10),
            idle_timeout_ms: 30_000,
            reverse_handshake_flights: false,
            windows: None,
        }
    }
}

fn scid(seed: u64) -> [u8; quiche::MAX_CONN_ID_LEN] {
    // connection ids only need to be unique among the live connections of this process
    use std::sync::atomic::{AtomicU64, Ordering};
    static N: AtomicU64 = AtomicU64::new(1);
    let n = N.fetch_add(1, Ordering::Relaxed);
    let mut id = [0u8; quiche::MAX_CONN_ID_LEN];
    let mut x = seed ^ 0x9e37_79b9_7f4a_7c15u64.wrapping_mul(n) ^ (std::process::id() as u64) << 32;
    for b in id.iter_mut() {
        x ^= x << 13;
        x ^= x >> 7;
        x ^= x << 17;
        *b = x as u8;
    }
    id[..8].copy_from_slice(&n.to_be_bytes());
    id
}

impl H3Conn {
    /// QUIC handshake (stateless retry included) + HTTP/3 session set-up
    pub fn connect(server: SocketAddr, o: &ClientOpts) -> Result<Self, ConnectError> {
        let sock = UdpSocket::bind(SocketAddr::new(o.src_ip, 0)).map_err(|e| ConnectError::Io(e.to_string()))?;
        // a large receive buffer: a client thread that is descheduled for a moment should not turn into packet loss
        let _ = socket2::SockRef::from(&sock).set_recv_buffer_size(4 << 20);
        let local = sock.local_addr().map_err(|e| ConnectError::Io(e.to_string()))?;
        let mut config = quiche::Config::new(quiche::PROTOCOL_VERSION).map_err(|e| ConnectError::Io(e.to_string()))?;
        config.verify_peer(false);
        config.set_max_idle_timeout(o.idle_timeout_ms);
        config.set_max_recv_udp_payload_size(MAX_DGRAM);
        config.set_max_send_udp_payload_size(MAX_DGRAM);
        // The flow-control windows bound what the endpoint can have in flight towards this client. They are kept
        // well below the socket's receive buffer so that a slow client thread means back-pressure, not packet
        // loss (and never 128 packets lost in a row, which quiche 0.24 cannot recover from: it encodes the
        // packet number of the following packets one byte too short).
        config.set_initial_max_data(1_500_000);
        config.set_max_connection_window(1_500_000);
        config.set_max_stream_window(1_000_000);
        config.set_initial_max_stream_data_bidi_local(1_000_000);
        config.set_initial_max_stream_data_bidi_remote(1_000_000);
        config.set_initial_max_stream_data_uni(1_000_000);
        config.set_initial_max_streams_bidi(100);
        config.set_initial_max_streams_uni(100);
        if let Some((cw, sw)) = o.windows {
            // fixed windows (the maximum equals the initial value: quiche does not grow them)
            config.set_initial_max_data(cw);
            config.set_max_connection_window(cw);
            config.set_max_stream_window(sw);
            config.set_initial_max_stream_data_bidi_local(sw);
            config.set_initial_max_stream_data_bidi_remote(sw);
        }
        config.set_application_protos(o.alpn).map_err(|e| ConnectError::Io(e.to_string()))?;
        let id = scid(local.port() as u64);
        let conn = quiche::connect(o.sni, &quiche::ConnectionId::from_ref(&id), local, server, &mut config)
            .map_err(|e| ConnectError::Io(e.to_string()))?;
        let mut c = H3Conn { sock, local, peer: server, conn, h3: None, streams: BTreeMap::new(), goaway: false, body_keep: usize::MAX, rx_after_handshake: 0, deaf_until: None, max_dropped: 100, dropped: 0, io_error: None, initial_flights: Vec::new(), reverse_handshake_flights: o.reverse_handshake_flights, hold: Default::default() };
        let deadline = Instant::now() + o.handshake_budget;
        loop {
            c.flush();
            if c.conn.is_established() {
                break;
            }
            if c.conn.is_closed() || c.conn.local_error().is_some() || c.conn.peer_error().is_some() {
                return Err(ConnectError::Closed(c.close_reason()));
            }
            if let Some(e) = &c.io_error {
                return Err(ConnectError::Io(e.clone()));
            }
            let now = Instant::now();
            if now >= deadline {
                return Err(ConnectError::Timeout);
            }
            c.wait_packet(deadline - now);
        }
        let h3c = h3::Connection::with_transport(&mut c.conn, &h3::Config::new().unwrap()).map_err(|e| ConnectError::Closed(format!("h3 set-up: {}", e)))?;
        c.h3 = Some(h3c);
        c.flush();
        Ok(c)
    }

    /// the TLS client random of this connection's (completed) handshake
    pub fn client_random(&mut self) -> [u8; 32] {
        let ssl: &mut boring::ssl::SslRef = self.conn.as_mut();
        let mut r = [0u8; 32];
        ssl.client_random(&mut r);
        r
    }

    /// a socket / quiche level failure of the client itself, if any
    pub fn io_error(&self) -> Option<&str> {
        self.io_error.as_deref()
    }

    pub fn local_addr(&self) -> SocketAddr {
        self.local
    }

    pub fn close_reason(&self) -> String {
        if let Some(e) = self.conn.peer_error() {
            return format!("peer closed: app={} code={:#x} reason={}", e.is_app, e.error_code, String::from_utf8_lossy(&e.reason));
        }
        if let Some(e) = self.conn.local_error() {
            return format!("local close: app={} code={:#x} reason={}", e.is_app, e.error_code, String::from_utf8_lossy(&e.reason));
        }
        if self.conn.is_timed_out() {
            return "idle timeout".into();
        }
        "closed".into()
    }

    /// the server closed the connection (CONNECTION_CLOSE received), or it died
    pub fn closed_by_peer(&self) -> bool {
        self.conn.peer_error().is_some() || (self.conn.is_closed() && self.conn.local_error().is_none())
    }

    pub fn is_closed(&self) -> bool {
        self.conn.is_closed() || self.conn.is_draining()
    }

    fn flush(&mut self) {
        if self.h3.is_none() {
            return self.flush_handshake();
        }
        let mut out = [0u8; MAX_DGRAM];
        let mut burst = 0;
        loop {
            match self.conn.send(&mut out) {
                Ok((n, info)) => match self.sock.send_to(&out[..n], info.to) {
                    Ok(_) => {
                        // crude pacing: the endpoint's UDP socket has the default receive buffer (about 90
                        // full-size datagrams); an upload must not overrun it with one burst
                        burst += 1;
                        if burst % 32 == 0 {
                            std::thread::sleep(Duration::from_micros(150));
                        }
                    }
                    Err(e) if e.kind() == ErrorKind::WouldBlock => break,
                    Err(e) => {
                        self.io_error = Some(format!("send: {}", e));
                        break;
                    }
                },
                Err(quiche::Error::Done) => break,
                Err(e) => {
                    self.io_error = Some(format!("quiche send: {}", e));
                    break;
                }
            }
        }
    }

    /// `flush` while the handshake is in progress: the burst is taken out of quiche first, the datagrams that carry
    /// an Initial packet are counted (`initial_flights`), and the burst leaves in order or reversed
    fn flush_handshake(&mut self) {
        let mut out = [0u8; MAX_DGRAM];
        let mut burst: Vec<(Vec<u8>, SocketAddr)> = Vec::new();
        loop {
            match self.conn.send(&mut out) {
                Ok((n, info)) => burst.push((out[..n].to_vec(), info.to)),
                Err(quiche::Error::Done) => break,
                Err(e) => {
                    self.io_error = Some(format!("quiche send: {}", e));
                    break;
                }
            }
        }
        let initials: Vec<bool> = burst.iter().filter_map(|(d, _)| initial_packet_token(d)).collect();
        if !initials.is_empty() {
            self.initial_flights.push((initials.iter().any(|t| *t), initials.len()));
        }
        if self.reverse_handshake_flights {
            burst.reverse();
        }
        for (d, to) in burst {
            match self.sock.send_to(&d, to) {
                Ok(_) => (),
                Err(e) if e.kind() == ErrorKind::WouldBlock => break,
                Err(e) => {
                    self.io_error = Some(format!("send: {}", e));
                    break;
                }
            }
        }
    }

    /// The number of datagrams the ClientHello of the completed handshake took: the first burst of Initial packets
    /// that carry the retry token (the endpoint answers a token-less Initial with a stateless Retry and the
    /// client starts over with a new ClientHello), or the very first burst where no retry happened.
    /// Later bursts of Initial packets are acknowledgements / retransmissions.
    pub fn client_hello_datagrams(&self) -> usize {
        self.initial_flights.iter().find(|(token, _)| *token).or(self.initial_flights.first()).map(|(_, n)| *n).unwrap_or(0)
    }

    /// Wait at most `max` for one datagram (or the connection's own timer), feed everything that
    /// is queued on the socket to quiche, run timers, flush. Returns whether anything was received.
    fn wait_packet(&mut self, max: Duration) -> bool {
        let wait = match self.conn.timeout() {
            Some(t) => t.min(max),
            None => max,
        }
        .max(Duration::from_millis(1));
        let _ = self.sock.set_nonblocking(false);
        let _ = self.sock.set_read_timeout(Some(wait));
        let mut buf = [0u8; 65535];
        let mut got = false;
        let mut first = true;
        loop {
            match self.sock.recv_from(&mut buf) {
                Ok((n, from)) => {
                    got = true;
                    if self.h3.is_some() {
                        self.rx_after_handshake += 1;
                    }
                    if self.dropped < self.max_dropped && self.deaf_until.map(|t| Instant::now() < t).unwrap_or(false) {
                        self.dropped += 1;
                    } else {
                        let _ = self.conn.recv(&mut buf[..n], quiche::RecvInfo { from, to: self.local });
                    }
                }
                Err(e) if e.kind() == ErrorKind::WouldBlock || e.kind() == ErrorKind::TimedOut => break,
                Err(e) if e.kind() == ErrorKind::Interrupted => continue,
                // ICMP port unreachable surfaces as ECONNREFUSED on some stacks: the server is gone
                Err(e) => {
                    self.io_error = Some(format!("recv: {}", e));
                    break;
                }
            }
            if first {
                first = false;
                // let the rest of the flight arrive: one acknowledgement per batch, not one per datagram (a flood of
                // tiny ACK datagrams overruns the endpoint's socket buffer just as well)
                if self.h3.is_some() {
                    std::thread::sleep(Duration::from_micros(250));
                }
                let _ = self.sock.set_nonblocking(true);
            }
        }
        let _ = self.sock.set_nonblocking(false);
        if self.conn.timeout() == Some(Duration::ZERO) {
            self.conn.on_timeout();
        }
        self.flush();
        got
    }

    fn drain_events(&mut self) {
        let Some(h3c) = self.h3.as_mut() else { return };
        loop {
            match h3c.poll(&mut self.conn) {
                Ok((sid, h3::Event::Headers { list, .. })) => {
                    let s = self.streams.entry(sid).or_default();
                    s.heads.push(list.iter().map(|h| (String::from_utf8_lossy(h.name()).to_string(), h.value().to_vec())).collect());
                }
                Ok((sid, h3::Event::Data)) if self.hold.contains(&sid) => (),
                Ok((sid, h3::Event::Data)) => {
                    let mut buf = [0u8; 65536];
                    loop {
                        match h3c.recv_body(&mut self.conn, sid, &mut buf) {
                            Ok(n) => {
                                let keep = self.body_keep;
                                let st = self.streams.entry(sid).or_default();
                                st.body_len += n as u64;
                                let room = keep.saturating_sub(st.body.len()).min(n);
                                st.body.extend_from_slice(&buf[..room]);
                            }
                            // quiche reports a RESET_STREAM it meets while the body is being read as an error of
                            // recv_body and then files the stream under "finished": the error is the truth
                            Err(h3::Error::TransportError(quiche::Error::StreamReset(code))) => {
                                self.streams.entry(sid).or_default().reset = Some(code);
                                break;
                            }
                            Err(_) => break,
                        }
                    }
                }
                Ok((sid, h3::Event::Finished)) => {
                    // quiche's HTTP/3 layer also files a stream whose RESET_STREAM arrived after its buffered data was
                    // read under "finished" (Connection::stream_finished is true for both): ask the transport
                    let mut probe = [0u8; 1];
                    let was_reset = match self.conn.stream_recv(sid, &mut probe) {
                        Err(quiche::Error::StreamReset(code)) => Some(code),
                        _ => None,
                    };
                    let st = self.streams.entry(sid).or_default();
                    if let Some(code) = was_reset {
                        st.reset = Some(code);
                    }
                    if st.reset.is_none() {
                        st.finished = true;
                    }
                }
                Ok((sid, h3::Event::Reset(code))) => self.streams.entry(sid).or_default().reset = Some(code),
                Ok((_, h3::Event::GoAway)) => self.goaway = true,
                Ok((_, h3::Event::PriorityUpdate)) => (),
                Err(h3::Error::Done) => break,
                Err(_) => break,
            }
        }
    }

    /// The application reads at most `max` body octets of a (held) stream that are in the transport's receive buffer;
    /// returns how many it got. The flow-control updates this causes leave with the next flush.
    pub fn read_body(&mut self, sid: u64, max: usize) -> usize {
        let Some(h3c) = self.h3.as_mut() else { return 0 };
        let mut buf = [0u8; 16384];
        let mut total = 0;
        while total < max {
            let want = (max - total).min(buf.len());
            match h3c.recv_body(&mut self.conn, sid, &mut buf[..want]) {
                Ok(0) => break,
                Ok(n) => {
                    let keep = self.body_keep;
                    let st = self.streams.entry(sid).or_default();
                    st.body_len += n as u64;
                    let room = keep.saturating_sub(st.body.len()).min(n);
                    st.body.extend_from_slice(&buf[..room]);
                    total += n;
                }
                Err(h3::Error::TransportError(quiche::Error::StreamReset(code))) => {
                    self.streams.entry(sid).or_default().reset = Some(code);
                    break;
                }
                Err(_) => break,
            }
        }
        self.flush();
        total
    }

    /// Drive the connection until nothing has arrived for `quiet` (the endpoint has sent what the client's credit
    /// allows, or has nothing to send), at most for `budget`. Returns whether it became quiet.
    pub fn settle(&mut self, quiet: Duration, budget: Duration) -> bool {
        let deadline = Instant::now() + budget;
        let mut last = Instant::now();
        loop {
            self.flush();
            self.drain_events();
            self.flush();
            let now = Instant::now();
            if self.conn.is_closed() || self.io_error.is_some() {
                return false;
            }
            if now.duration_since(last) >= quiet {
                return true;
            }
            if now >= deadline {
                return false;
            }
            if self.wait_packet((quiet - now.duration_since(last)).min(deadline - now)) {
                last = Instant::now();
            }
        }
    }

    /// Drive the connection until `pred` holds, the connection is closed, or `budget` elapsed.
    /// Returns whether `pred` held.
    pub fn run_until(&mut self, budget: Duration, pred: impl Fn(&Self) -> bool) -> bool {
        let deadline = Instant::now() + budget;
        loop {
            self.flush();
            self.drain_events();
            // reading the bodies opens the flow-control windows: the updates must leave before we wait
            self.flush();
            if pred(self) {
                return true;
            }
            if self.conn.is_closed() || self.io_error.is_some() {
                return false;
            }
            let now = Instant::now();
            if now >= deadline {
                return false;
            }
            self.wait_packet(deadline - now);
        }
    }

    /// Drive the connection for `d` (collecting whatever arrives)
    pub fn linger(&mut self, d: Duration) {
        self.run_until(d, |_| false);
    }

    /// Send a request; `fin` ends the client's side of the stream with the head
    pub fn request(&mut self, headers: &[(Vec<u8>, Vec<u8>)], fin: bool) -> Result<u64, String> {
        let list: Vec<h3::Header> = headers.iter().map(|(n, v)| h3::Header::new(n, v)).collect();
        let deadline = Instant::now() + Duration::from_secs(5);
        loop {
            let h3c = self.h3.as_mut().ok_or("no session")?;
            match h3c.send_request(&mut self.conn, &list, fin) {
                Ok(sid) => {
                    self.streams.entry(sid).or_default();
                    self.flush();
                    return Ok(sid);
                }
                Err(h3::Error::StreamBlocked) | Err(h3::Error::Done) if Instant::now() < deadline => {
                    self.wait_packet(Duration::from_millis(20));
                }
                Err(e) => return Err(format!("send_request: {}", e)),
            }
            if self.conn.is_closed() {
                return Err(format!("send_request: {}", self.close_reason()));
            }
        }
    }

    /// Send body bytes (and optionally the end of the stream); blocks (pumping the connection)
    /// until quiche has taken everything or `budget` elapsed
    pub fn send_data(&mut self, sid: u64, mut data: &[u8], fin: bool, budget: Duration) -> Result<(), String> {
        let deadline = Instant::now() + budget;
        loop {
            let h3c = self.h3.as_mut().ok_or("no session")?;
            match h3c.send_body(&mut self.conn, sid, data, fin) {
                Ok(n) => {
                    data = &data[n..];
                    self.flush();
                    if data.is_empty() {
                        return Ok(());
                    }
                }
                Err(h3::Error::Done) => (),
                Err(e) => return Err(format!("send_body: {}", e)),
            }
            if Instant::now() >= deadline {
                return Err("send_body: flow control did not open in time".into());
            }
            if self.conn.is_closed() {
                return Err(format!("send_body: {}", self.close_reason()));
            }
            self.wait_packet(Duration::from_millis(20));
            self.drain_events();
            self.flush();
        }
    }

    /// Abort the request stream from the client side
    pub fn reset_stream(&mut self, sid: u64, code: u64) {
        let _ = self.conn.stream_shutdown(sid, quiche::Shutdown::Write, code);
        let _ = self.conn.stream_shutdown(sid, quiche::Shutdown::Read, code);
        self.flush();
    }

    /// RESET_STREAM only: the client aborts its sending part, the receiving part and the connection stay
    pub fn reset_send(&mut self, sid: u64, code: u64) {
        let _ = self.conn.stream_shutdown(sid, quiche::Shutdown::Write, code);
        self.flush();
    }

    /// Raw octets on a stream (below the HTTP/3 layer: a hand-made frame, a frame cut short)
    pub fn raw_stream_send(&mut self, sid: u64, data: &[u8], fin: bool) -> Result<usize, String> {
        let n = self.conn.stream_send(sid, data, fin).map_err(|e| format!("stream_send: {}", e))?;
        self.flush();
        Ok(n)
    }

    /// An ack-eliciting packet (PING): keeps the connection busy without touching any stream
    pub fn ping(&mut self) {
        let _ = self.conn.send_ack_eliciting();
        self.flush();
    }

    /// CONNECTION_CLOSE with a chosen code (application error or transport error)
    pub fn close_with(&mut self, app: bool, code: u64, reason: &[u8]) {
        let _ = self.conn.close(app, code, reason);
        self.flush();
    }

    /// DER of the leaf certificate the server presented in this connection's handshake
    pub fn peer_cert_der(&self) -> Option<Vec<u8>> {
        self.conn.peer_cert().map(|c| c.to_vec())
    }

    /// The application protocol negotiated by the handshake
    pub fn negotiated_alpn(&self) -> Vec<u8> {
        self.conn.application_proto().to_vec()
    }

    /// CONNECTION_CLOSE (application, no error) and a short drain so the datagram leaves
    pub fn close(&mut self) {
        let _ = self.conn.close(true, 0x100, b"done");
        self.flush();
    }

    pub fn stream(&self, sid: u64) -> StreamObs {
        self.streams.get(&sid).cloned().unwrap_or_default()
    }
}

/// `Some(has_token)` if the datagram starts with a QUIC v1 Initial packet (long header, type 0)
pub fn initial_packet_token(d: &[u8]) -> Option<bool> {
    if d.len() < 7 || d[0] & 0xf0 != 0xc0 {
        return None;
    }
    let dcid_len = d[5] as usize;
    let scid_len = *d.get(6 + dcid_len)? as usize;
    // token length: a variable-length integer; zero is the single byte 0
    Some(*d.get(7 + dcid_len + scid_len)? != 0)
}

/// Request head for the tunnel vectors: `CONNECT <authority>` or `<METHOD> http://authority/path`
pub fn request_headers(method: &str, target: &str, extra: &[(&str, &[u8])]) -> Vec<(Vec<u8>, Vec<u8>)> {
    let mut h: Vec<(Vec<u8>, Vec<u8>)> = vec![(b":method".to_vec(), method.as_bytes().to_vec())];
    if let Some((scheme, rest)) = target.split_once("://") {
        let (authority, path) = match rest.find('/') {
            Some(i) => (&rest[..i], &rest[i..]),
            None => (rest, "/"),
        };
        h.push((b":scheme".to_vec(), scheme.as_bytes().to_vec()));
        h.push((b":authority".to_vec(), authority.as_bytes().to_vec()));
        h.push((b":path".to_vec(), path.as_bytes().to_vec()));
    } else {
        h.push((b":authority".to_vec(), target.as_bytes().to_vec()));
    }
    for (n, v) in extra {
        h.push((n.as_bytes().to_vec(), v.to_vec()));
    }
    h
}
